"""C01 bounded stand-in and replay: per-currency stock-flow consistency of generated models (solved series)."""
import random, sys, os
sys.path.insert(0, os.path.dirname(os.path.abspath(__file__)))
from common import *   # noqa
import modelgen as M
import C04 as H4
import C07 as H7


def make_program(rnd, force=None):
    """force: 'gift2' (one income-relevant amount paid to two recipients) / 'pension' (exogenous deposit holder): the first cases of every run"""
    kind = 'single' if force else rnd.choice(['single', 'federated', 'fx', 'fx', 'markets'])
    if kind == 'single':
        prog = dict(external=False, countries=[M.economy(rnd, 'CA', 'CAD', variant=('pc' if force == 'pension' else None))], horizon=5, flows=[])
        c = prog['countries'][0]
        if rnd.random() < 0.5:
            prog['flows'].append((c['code'], c['gov'], c['code'], c['hh'], 'GIFT', repr(round(rnd.uniform(0.2, 2.0), 3))))
        if force == 'gift2' or rnd.random() < 0.4:
            # the SAME amount variable paid to two recipients
            inc = True if force == 'gift2' else rnd.random() < 0.6
            prog['flows'].append((c['code'], c['hh'], c['code'], c['gov'], 'GIFT2', repr(round(rnd.uniform(0.2, 1.0), 3)), inc))
            prog['flows'].append((c['code'], c['hh'], c['code'], c['roles']['bus'], 'GIFT2', repr(round(rnd.uniform(0.2, 1.0), 3)), inc))
        if c['variant'] == 'pc' and (force == 'pension' or rnd.random() < 0.7):
            # a holder whose deposits are a placeholder '0.0' made exogenous (like government demand)
            prog['pension'] = (c['code'], '[%s]' % ', '.join(repr(round(rnd.uniform(2, 9), 1)) for _ in range(12)))
        return prog
    if kind == 'fx':
        return H7.make_program(rnd)
    return H4.make_program(rnd)


def run_program(prog):
    mod, objs = H4.build(prog)
    if prog.get('pension'):
        from sfc_models.sector import Sector
        (cc, path) = prog['pension']
        co = [c for c in mod.CountryList if c.Code == cc][0]
        pf = Sector(co, 'PF', has_F=True)
        pf.AddVariable('DEM_DEP', 'deposits held by the pension fund', '0.0')
        pf.SetExogenous('DEM_DEP', path)
    mod.main()
    return M.check_ledger(mod, prog)


def ledger(tier, seed, **opts):
    r = Result('random economies of every catalogue shape (single country; federated zone with regional markets and second suppliers; 2-3 currencies with '
               'registered gifts, gold purchases and cross-currency suppliers at non-unit time-varying rates; treasury + central bank + asset markets), solved over '
               '4-5 periods; for every currency and period k >= 2 the changes in F of all sectors of the zone plus the FX position sum to 0: 30 (quick) / 600 (thorough)')
    rnd = random.Random(seed)
    for i in range(30 if tier == 'quick' else 600):
        prog = make_program(rnd, force={0: 'gift2', 1: 'pension', 2: 'gift2'}.get(i))
        try:
            bad = run_program(prog)
        except Exception as ex:
            import traceback
            bad = 'building / solving raised %s: %s' % (type(ex).__name__, traceback.format_exc()[-500:])
        key = (tuple(c['variant'] for c in prog['countries']), prog.get('external'), len(prog.get('flows', [])), len(prog.get('suppliers', [])), len(prog.get('gold', [])))
        r.case(key, True, sample={'shape': key} if i < 2 else None)
        if bad:
            r.fail('ledger', {'program': prog}, bad)
            break
    return r


def catalogue_programs():
    rnd = random.Random(7)
    out = []
    # two tax flows in one zone (federal + provincial tax on the same household)
    e = M.economy(rnd, 'CA', 'CAD', 'sim')
    e['sectors'].append(dict(kind='gov', code='PROV'))
    e['sectors'].append(dict(kind='tf', code='TF2', rate=0.1, to='PROV'))
    out.append(('two-taxflows-one-zone', dict(external=False, countries=[e], horizon=4)))
    # two dividend-paying firms and one capitalist sector in a country
    e = M.economy(rnd, 'CA', 'CAD', 'sim_margin_cap')
    firm = [s for s in e['sectors'] if s['kind'] == 'bus'][0]
    e['sectors'].insert(e['sectors'].index(firm) + 1, dict(kind='bus', code='BUS2', margin=0.15, lab=firm['lab'], good=firm['good'] + '2'))
    e['sectors'].append(dict(kind='market', code=firm['good'] + '2'))
    e['exo'].append((e['gov'], 'DEM_' + firm['good'] + '2', '[5.]*60'))
    out.append(('two-dividend-payers', dict(external=False, countries=[e], horizon=4)))
    return out


def catalogue(tier, seed, **opts):
    r = Result('fixed catalogue of topologies outside the random generator: two tax flows in one zone; two dividend-paying firms with one capitalist sector')
    for (cid, prog) in catalogue_programs():
        try:
            bad = run_program(prog)
        except Exception as ex:
            import traceback
            bad = 'building / solving raised %s: %s' % (type(ex).__name__, traceback.format_exc()[-500:])
        r.case(cid, True)
        if bad:
            r.fail(cid, {'program': prog}, bad)
    return r


FUNCS = {'ledger': ledger, 'catalogue': catalogue}


def replay(payload):
    if payload.get('kind') == 'bounded-failure':
        prog = payload['native']['input']['program']
        try:
            bad = run_program(prog)
        except Exception as ex:
            bad = 'building / solving raised %s: %s' % (type(ex).__name__, ex)
        return {'reproduced': bool(bad), 'detail': bad, 'input': prog}
    r = ledger('quick', 0)
    if r.failures:
        return {'reproduced': True, 'detail': r.failures[0]['detail'], 'input': r.failures[0]['input'], 'note': 'found by the bounded search'}
    return {'reproduced': False, 'detail': 'no generated model violates the per-currency ledger identity'}


if __name__ == '__main__':
    main(FUNCS, replay)
