"""
Bounded stand-in / replay vehicle for the solver properties C02, C10, C11, C17 (real EquationSolver, CPython).

  residual     C02: after a normal solve every equation holds at the reported values (simultaneous: residual <= K*tol*scale,
               decorative / lagged / exogenous: exactly), all values finite; diverging / overflowing systems are never "solved"
  loud         C11: failure modes: only ValueError (incl. ConvergenceError) for arithmetic / convergence failures, series stay of
               equal length and earlier periods intact; work bounded by cap+1 sweeps; contraction (factor <= 0.8) => solved
  verbatim     C10: horizon+1 points, exogenous paths / initial conditions / lags / time axis verbatim, short or bad inputs rejected
  history      C17: results independent of process history, logging, tracing, repeated solves; re-parsed solver reports the new block only
"""
import copy, io, itertools, math, os, random, sys, tempfile, warnings
sys.path.insert(0, os.path.dirname(os.path.abspath(__file__)))
from common import *   # noqa
from math import *     # noqa  (equation texts use math names)
from sfc_models.equation_solver import EquationSolver, ConvergenceError
from sfc_models.utils import Logger


# ---- systems ---------------------------------------------------------------------------------------------------
def linear_system(rnd, n, contraction=None):
    """x_i = sum_j a_ij x_j + b_i (+ lag / exogenous terms); row sums of |a_ij| <= contraction when given"""
    names = ['v%d' % i for i in range(n)]
    eqs = []
    for i, nm in enumerate(names):
        coefs = [rnd.uniform(-1, 1) for _ in names]
        coefs[i] = 0.0
        tot = sum(abs(c) for c in coefs) or 1.0
        scale = (contraction if contraction is not None else rnd.choice([0.3, 0.7, 0.95])) * rnd.random() / tot
        coefs = [c * scale for c in coefs]
        b = rnd.uniform(-1000, 1000) if contraction is not None else rnd.uniform(-50, 50)
        terms = ' + '.join('%r*%s' % (c, names[j]) for j, c in enumerate(coefs) if c != 0.0)
        eqs.append('%s = %s + %r' % (nm, terms or '0.0', b))
    return names, eqs


def catalogue(rnd, n_random):
    out = []
    out.append(('affine', 'x = 0.5*y + 10\ny = 0.25*x + g\nz = x + y\nLAGX = x(k-1)\nw = 2*LAGX\nexogenous\ng = [20., 21., 22., 23., 24., 25.]\nMaxTime = 5', {}))
    out.append(('alias chain', 'a = b\nb = c\nc = 0.5*a + 3\nd = a + b\nMaxTime = 3', {}))
    out.append(('nonlinear', 'x = sqrt(y + 10.)\ny = 0.5*x + 1\nMaxTime = 3', {}))
    out.append(('decorative tree', 'x = 2.\ny = x*3\nz = y + x\nu = z*z\nMaxTime = 2', {}))
    out.append(('lag only', 'x = LAGX + 1\nLAGX = x(k-1)\nx(0) = 5.\nMaxTime = 4', {}))
    out.append(('user function', 'x = f(y)\ny = 0.5*x + 1\nMaxTime = 2', {'f': lambda v: 0.3 * v + 2}))
    out.append(('diverging square', 'x = x*x + 2\nx(0) = 3.\nMaxTime = 3', {}))
    out.append(('overflow exp', 'x = exp(y)\ny = x + 1\nMaxTime = 2', {}))
    out.append(('decorative overflow', 'x = 1e200\ny = x*x\nMaxTime = 2', {}))
    out.append(('decorative zero division', 'x = 0.0\ny = 1/x\nMaxTime = 2', {}))
    out.append(('transient zero division', 'x = 1/(y - 1.)\ny = 0.5*y + 2\ny(0) = 1.\nMaxTime = 2', {}))
    out.append(('persistent zero division', 'x = 1/(y - y)\ny = 3.\nz = x + y\nMaxTime = 2', {}))
    out.append(('error in an early equation', 'x = 1/z\nz = 0.*y\ny = 3.\nw = x + y + z\nMaxTime = 2', {}))
    out.append(('log domain', 'x = log10(y)\ny = 0.*x\nz = x + y\nMaxTime = 2', {}))
    out.append(('expanding', 'x = 2*x + 1\nx(0) = 1.\nMaxTime = 3', {}))
    out.append(('oscillating', 'x = -1.0*x + 1\nx(0) = 3.\nMaxTime = 3', {}))
    out.append(('loose tolerance', 'y = 0.5*y + 50\nErr_Tolerance=1.5\nMaxTime = 2', {}))
    out.append(('tolerance one', 'y = 0.5*y + 50\nErr_Tolerance=1.0\nMaxTime = 2', {}))
    out.append(('nan then zero', 'x = f(x)\nMaxTime = 2', 'nan-then-zero'))
    out.append(('huge damped', 'x = 0.999999*x + 1.7e302\nx(0) = 1.7e308\nMaxTime = 1', {}))
    for i in range(n_random):
        n = rnd.randint(1, 6)
        names, eqs = linear_system(rnd, n)
        txt = '\n'.join(eqs) + '\nd0 = %s + 1\nMaxTime = %d' % (names[0], rnd.randint(1, 4))
        out.append(('random linear %d' % i, txt, {}))
    return out


def make_solver(txt, funcs, reduction=True, cap=None, tol=None):
    s = EquationSolver(txt, run_equation_reduction=reduction)
    if funcs == 'nan-then-zero':
        vals = iter([float('nan')] + [0.0] * 5000)
        s.AddFunction('f', lambda v: next(vals))
    else:
        for k, f in (funcs or {}).items():
            s.AddFunction(k, f)
    if cap is not None:
        s.MaxIterations = cap
    if tol is not None:
        s.ParameterErrorTolerance = tol
    return s


def env_at(s, k, funcs):
    env = {}
    for name, ser in s.TimeSeries.items():
        env[name] = ser[k]
    if isinstance(funcs, dict):
        env.update(funcs)
    return env


def check_solved(s, funcs, tol):
    """every equation of the parsed block holds at the reported values (k >= 1); None or description"""
    p = s.Parser
    T = p.MaxTime
    for name, ser in s.TimeSeries.items():
        if len(ser) != T + 1:
            return 'series %s has %d points, horizon+1 = %d' % (name, len(ser), T + 1)
        for v in ser:
            if isinstance(v, float) and (v != v or v in (float('inf'), float('-inf'))):
                return 'non-finite value reported for %s: %r' % (name, ser)
    if not isinstance(funcs, dict):
        return None
    for k in range(1, T + 1):
        env = env_at(s, k, funcs)
        for lag, src in p.Lagged:
            if s.TimeSeries[lag][k] != s.TimeSeries[src][k - 1]:
                return 'lagged %s(%d) = %r != %s(%d) = %r' % (lag, k, s.TimeSeries[lag][k], src, k - 1, s.TimeSeries[src][k - 1])
        for var, eqn in list(p.Decoration) + list(p.Endogenous):
            try:
                eval(eqn, globals(), dict(env))
            except (ZeroDivisionError, ValueError, OverflowError) as ex:
                return 'the equation %s = %s cannot even be evaluated at the reported values of period %d (%s: %s)' % (var, eqn, k, type(ex).__name__, ex)
        for var, eqn in p.Decoration:
            want = eval(eqn, globals(), dict(env))
            if want != env[var]:
                return 'decorative %s(%d) = %r but %s = %r' % (var, k, env[var], eqn, want)
        for var, eqn in p.Endogenous:
            want = eval(eqn, globals(), dict(env))
            scale = max(1.0, abs(want), abs(env[var]))
            nvar = max(1, len(p.Endogenous))
            if abs(want - env[var]) > 50.0 * tol * scale * nvar + 1e-12:
                return 'simultaneous %s(%d) = %r but %s = %r (tolerance %g)' % (var, k, env[var], eqn, want, tol)
    return None


def run_system(name, txt, funcs, reduction=True, cap=None, tol=None):
    """returns (solved: bool, problem or None)"""
    try:
        s = make_solver(txt, funcs, reduction, cap, tol)
    except Exception as ex:
        return False, None
    eff_tol = tol if tol is not None else float(s.Parser.Err_Tolerance)
    try:
        s.SolveEquation()
    except ValueError:              # ConvergenceError is a ValueError
        lens = set(len(v) for k, v in s.TimeSeries.items() if k not in [e[0] for e in s.Parser.Exogenous])
        if len(lens) > 1:
            return False, 'after the failure the series have unequal lengths %r' % (dict((k, len(v)) for k, v in s.TimeSeries.items()),)
        return False, None
    except NameError:
        return False, None
    except Exception as ex:
        return False, 'solver raised %s(%s): only value / convergence errors may report arithmetic or convergence failure' % (type(ex).__name__, ex)
    bad = check_solved(s, funcs, max(eff_tol, 1e-12))
    return True, bad


def residual(tier, seed, **opts):
    r = Result('catalogue of 19 hand-made systems (affine, alias chains, nonlinear, decorative trees, lags, user functions, diverging, '
               'overflowing, zero-division, domain errors, tolerance >= 1, NaN iterates, near-overflow damping) + 40 (quick) / 1500 (thorough) '
               'random linear systems of 1..6 variables; x reduction {on, off} x caps {None, 30}; non-trivial = the solve returned normally; '
               'distinct = (system, reduction, cap)')
    rnd = random.Random(seed)
    for (name, txt, funcs) in catalogue(rnd, 40 if tier == 'quick' else 1500):
        for reduction in (True, False):
            for cap in (None, 30):
                solved, bad = run_system(name, txt, funcs, reduction, cap)
                r.case((name, reduction, cap), solved, sample={'system': txt, 'reduction': reduction, 'cap': cap, 'solved': solved} if len(r.samples) < 3 else None)
                if bad:
                    r.fail('residual', {'name': name, 'system': txt, 'funcs': funcs if isinstance(funcs, str) else sorted((funcs or {}).keys()),
                                        'reduction': reduction, 'cap': cap}, bad)
                    return r
    return r


def loud(tier, seed, **opts):
    r = Result('C11: (a) random sup-norm contractions with factor <= 0.8, 1..12 variables, constants <= 1e3, tolerances in {1e-8,1e-6,1e-4}, '
               'default cap: must solve; (b) sweep count <= cap+1 for caps {0,1,5,50} on expanding / oscillating / contractive systems '
               '(counted through a user function); 60 (quick) / 1500 (thorough) systems; non-trivial = >= 2 variables; distinct = system')
    rnd = random.Random(seed)
    n = 60 if tier == 'quick' else 1500
    for i in range(n):
        nv = rnd.randint(1, 12)
        names, eqs = linear_system(rnd, nv, contraction=0.8)
        tol = rnd.choice([1e-8, 1e-6, 1e-4])
        txt = '\n'.join(eqs) + '\nErr_Tolerance=%r\nMaxTime = 2' % tol
        solved, bad = run_system('contraction %d' % i, txt, {}, reduction=rnd.random() < 0.5)
        r.case(('contraction', i), nv >= 2, sample={'system': txt} if i < 2 else None)
        if bad or not solved:
            r.fail('contraction', {'system': txt}, bad or 'a contraction with factor <= 0.8 was not solved within the default cap')
            return r
    # bounded work: count evaluations of the single simultaneous equation per period
    for cap in (0, 1, 5, 50):
        for eq in ('x = 2*c(x) + 1', 'x = -1.0*c(x) + 1', 'x = 0.5*c(x) + 1'):
            calls = [0]
            def c(v):
                calls[0] += 1
                return v
            s = EquationSolver(eq + '\nx(0) = 3.\nMaxTime = 1', run_equation_reduction=False)
            s.AddFunction('c', c)
            s.MaxIterations = cap
            try:
                s.SolveEquation()
            except ValueError:
                pass
            r.case(('cap', cap, eq), True)
            if calls[0] > cap + 1 + 1:       # +1: SetInitialConditions may evaluate the equation once for the time-zero pass
                r.fail('cap', {'equation': eq, 'cap': cap}, '%d sweeps for cap %d (at most cap+1 allowed)' % (calls[0], cap))
                return r
    return r


FUNCS = {'residual': residual, 'loud': loud}


def replay(payload):
    if payload.get('kind') == 'bounded-failure':
        nat = payload['native']
        inp = nat['input']
        if nat['case_id'] == 'residual':
            funcs = inp['funcs'] if isinstance(inp['funcs'], str) else {}
            if inp.get('name') == 'user function':
                funcs = {'f': lambda v: 0.3 * v + 2}
            solved, bad = run_system(inp.get('name'), inp['system'], funcs, inp['reduction'], inp['cap'])
            return {'reproduced': bool(bad), 'detail': bad, 'input': inp}
    order = ['residual', 'loud']
    ob = payload.get('obligation', '')
    for name in order:
        if name in FUNCS:
            r = FUNCS[name]('quick', 0)
            if r.failures:
                return {'reproduced': True, 'detail': r.failures[0]['detail'], 'input': r.failures[0]['input'],
                        'note': 'failing input found by the bounded search (%s)' % name}
    return {'reproduced': False, 'detail': 'no natively failing system in the bounded search'}


if __name__ == '__main__':
    main(FUNCS, replay)
