"""C03 bounded stand-in and replay: equation reduction on vs off gives the same series for every variable."""
import random, sys, os
sys.path.insert(0, os.path.dirname(os.path.abspath(__file__)))
from common import *   # noqa
from sfc_models.equation_solver import EquationSolver


def make_system(rnd):
    """contracting affine system with alias chains, aliases of exogenous / lagged / constant variables, decorative chains / trees, initial conditions"""
    n = rnd.randint(2, 5)
    core = ['v%d' % i for i in range(n)]
    lines = []
    consts = []
    if rnd.random() < 0.5:
        consts.append(('c0', round(rnd.uniform(0.5, 3.0), 2)))
    aliases = []          # (alias, target)
    targets = list(core) + [c for c, _ in consts] + ['g', 'LAGV']
    for i in range(rnd.randint(0, 3)):
        a = 'a%d' % i
        aliases.append((a, rnd.choice(targets)))
        if rnd.random() < 0.6:
            targets.append(a)      # alias chains
    usable = core + [a for a, _ in aliases] + [c for c, _ in consts]
    for i, v in enumerate(core):
        others = [u for u in usable if u != v]
        terms = []
        for u in rnd.sample(others, min(len(others), rnd.randint(1, 2))):
            terms.append('%s*%s' % (round(rnd.uniform(-0.25, 0.25), 2), u))
        if i == 0:
            terms.append('0.3*LAGV')
        if i == 1 or n == 2:
            terms.append('0.2*g')
        terms.append(str(round(rnd.uniform(0.5, 3.0), 2)))
        lines.append('%s = %s' % (v, ' + '.join(terms).replace('+ -', '- ')))
    for c, val in consts:
        lines.append('%s = %r' % (c, val))
    for a, t in aliases:
        lines.append('%s = %s' % (a, rnd.choice([t, ' ' + t, '+' + t])))
    lines.append('LAGV = %s(k-1)' % rnd.choice(core + [a for a, _ in aliases]))
    # decorative chains / trees
    dec = []
    for i in range(rnd.randint(0, 3)):
        d = 'ma%d' % i       # (contains the alias name a<i>: whole-token replacement only)
        src = rnd.sample(usable + dec, min(2, len(usable + dec)))
        lines.append('%s = %s' % (d, ' + '.join('%s*%s' % (round(rnd.uniform(0.5, 2), 1), s) for s in src)))
        dec.append(d)
    if rnd.random() < 0.3:
        # a self-referential variable that nothing else mentions (it is NOT decorative: it refers to itself)
        lines.append('selfref = %s*selfref + %s' % (round(rnd.uniform(0.1, 0.5), 2), rnd.choice(['g', '1.5'] + core)))
    ics = []
    for v in rnd.sample(core + [a for a, _ in aliases] + dec + ['LAGV'], rnd.randint(0, 2)):
        ics.append('%s(0) = %r' % (v, round(rnd.uniform(-2, 2), 2)))
    rnd.shuffle(lines)
    lines += ics
    lines += ['exogenous', 'g = %r' % ([round(rnd.uniform(1, 5), 1) for _ in range(8)],), 'MaxTime = 4', 'Err_Tolerance = 1e-9']
    return '\n'.join(lines)


def solve(text, reduce):
    s = EquationSolver(text, run_equation_reduction=reduce)
    s.MaxIterations = 2000
    s.SolveEquation()
    return dict((k, list(v)) for k, v in s.TimeSeries.items())


def check_system(text, tol=1e-6):
    try:
        off = solve(text, False)
    except Exception as ex:
        return None, False         # the unsimplified system itself does not solve: outside the quantifier
    try:
        on = solve(text, True)
    except Exception as ex:
        return 'reduction on raised %s: %s; reduction off solves\n%s' % (type(ex).__name__, str(ex)[:200], text), True
    if set(on) != set(off):
        return 'variables differ: only with reduction %r, only without %r\n%s' % (sorted(set(on) - set(off)), sorted(set(off) - set(on)), text), True
    for name in sorted(off):
        if len(on[name]) != len(off[name]):
            return 'series %s has %d points with reduction, %d without\n%s' % (name, len(on[name]), len(off[name]), text), True
        for k, (x, y) in enumerate(zip(on[name], off[name])):
            if abs(x - y) > tol * max(1.0, abs(x), abs(y)):
                return 'variable %s differs in period %d: %r with reduction, %r without\n%s' % (name, k, x, y, text), True
    return None, True


def differential(tier, seed, **opts):
    r = Result('random contracting affine systems (2-5 simultaneous variables, 0-3 exact aliases incl. chains and aliases of constants, of the exogenous and of the '
               'lagged variable, written `a = t`, `a =  t`, `a = +t`; 0-3 decorative variables in chains / trees; 0-2 initial conditions on any of them; one lag '
               'whose source may be an alias), solved with reduction on and off, every series compared at 1e-6 incl. k = 0: 300 (quick) / 6000 (thorough)')
    rnd = random.Random(seed)
    for i in range(300 if tier == 'quick' else 6000):
        text = make_system(rnd)
        bad, ok = check_system(text)
        r.case((text.count('\n'), 'a0' in text, '(0)' in text), ok, sample={'text': text} if i < 2 else None)
        if bad:
            r.fail('differential', {'text': text}, bad)
            break
    return r


FUNCS = {'differential': differential}


def replay(payload):
    if payload.get('kind') == 'bounded-failure':
        text = payload['native']['input']['text']
        bad, ok = check_system(text)
        return {'reproduced': bool(bad), 'detail': bad, 'input': {'text': text}}
    r = differential('quick', 0)
    if r.failures:
        return {'reproduced': True, 'detail': r.failures[0]['detail'], 'input': r.failures[0]['input'], 'note': 'found by the bounded search'}
    return {'reproduced': False, 'detail': 'no generated system depends on equation reduction'}


if __name__ == '__main__':
    main(FUNCS, replay)
