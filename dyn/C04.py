"""C04 bounded stand-in: market clearing and allocation identities on solved generated models."""
import random, sys, os
sys.path.insert(0, os.path.dirname(os.path.abspath(__file__)))
from common import *   # noqa
import modelgen as M
from sfc_models.sector import Market


def make_program(rnd):
    n = rnd.choice([1, 2, 2, 3])
    same_currency = n > 1 and rnd.random() < 0.6
    codes = ['CA', 'US', 'UK'][:n]
    countries = [M.economy(rnd, c, ('CAD' if same_currency else c + 'D')) for c in codes]
    prog = dict(external=False, countries=countries, horizon=4, suppliers=[], flows=[])
    if same_currency:
        # a federated zone: one central government and tax flow; regional households / firms trade in their own markets
        for i, c in enumerate(countries):
            if c['variant'] in ('pc', 'sim_margin_cap'):
                c.update(M.economy(rnd, c['code'], c['currency'], 'sim'))
            if i > 0:
                c['sectors'] = [s for s in c['sectors'] if s['kind'] not in ('gov', 'tf')]
                c['exo'] = []
        if rnd.random() < 0.7:
            # the central government also buys goods in another region's market (demand from another country of the zone)
            other = rnd.choice(countries[1:])
            prog['cross_demand'] = (countries[0]['code'], countries[0]['gov'], other['code'], other['roles']['good'], round(rnd.uniform(1, 9), 2))
        if rnd.random() < 0.6:
            a, b = rnd.sample(range(n), 2)
            prog['suppliers'].append((countries[a]['code'], countries[a]['roles']['good'], countries[b]['code'], countries[b]['roles']['bus'],
                                      round(rnd.uniform(0.05, 0.4), 3)))
    elif n > 1 and rnd.random() < 0.5:
        prog['external'] = True
        a, b = rnd.sample(range(n), 2)
        prog['suppliers'].append((countries[a]['code'], countries[a]['roles']['good'], countries[b]['code'], countries[b]['roles']['bus'],
                                  round(rnd.uniform(0.05, 0.4), 3)))
        prog['rates'] = [(c['currency'], '[%r]*40' % round(rnd.uniform(0.5, 2.0), 3)) for c in countries]
    if rnd.random() < 0.6:
        # any declaration order (constructors take codes, not objects): discovery loops must not depend on where a sector sits in the zone list
        order = [(ci, si) for ci, c in enumerate(prog['countries']) for si in range(len(c['sectors']))]
        rnd.shuffle(order)
        prog['order'] = order
    return prog


def build(prog):
    mod, objs = M.build(prog)
    if prog.get('cross_demand'):
        (gc, gcode, oc, good, amount) = prog['cross_demand']
        gov = objs[(gc, gcode)]
        market = objs[(oc, good)]
        name = 'DEM_' + oc + '_' + good
        gov.AddVariable(name, 'purchases in another region', '0.0')
        gov.SetExogenous(name, '[%r]*40' % amount)
    return mod, objs


def check_assets(mod, tol=2e-4):
    """a sector's demands for the financial assets among which it allocates its wealth add up to its financial assets"""
    ts = mod.EquationSolver.TimeSeries
    T = mod.EquationSolver.Parser.MaxTime
    for s in mod.GetSectors():
        wgt = [v for v in s.EquationBlock.Equations if v.startswith('WGT_')]
        if not wgt:
            continue
        for k in range(1, T + 1):
            tot = sum(ts[s.GetVariableName('DEM_' + w[4:])][k] for w in wgt)
            wsum = sum(ts[s.GetVariableName(w)][k] for w in wgt)
            if not M.close(wsum, 1.0, tol):
                return 'sector %s period %d: asset weights sum to %r' % (s.FullCode, k, wsum)
            if not M.close(tot, ts[s.GetVariableName('F')][k], tol):
                return 'sector %s period %d: asset demands %r do not add up to financial assets %r' % (s.FullCode, k, tot, ts[s.GetVariableName('F')][k])
    return None


def check_participants(mod, prog, tol=2e-4):
    """each supplier's own supply variable equals the amount the market assigns to it (times the cross rate across currencies)"""
    ts = mod.EquationSolver.TimeSeries
    T = mod.EquationSolver.Parser.MaxTime
    for m in mod.GetSectors():
        if not isinstance(m, Market) or m.ResidualSupply is None:
            continue
        sups = [m.ResidualSupply] + [s for (s, _) in m.OtherSuppliers if s is not m.ResidualSupply]
        for sup in sups:
            alloc = m.GetVariableName('SUP_' + sup.FullCode)
            own = sup.GetVariableName(m.GetSupplierTerm(sup))
            if alloc not in ts or own not in ts:
                continue
            for k in range(1, T + 1):
                want = ts[alloc][k]
                if sup.CurrencyZone is not m.CurrencyZone:
                    want = want * ts['EXT_XR__' + m.CurrencyZone.Currency][k] / ts['EXT_XR__' + sup.CurrencyZone.Currency][k]
                if not M.close(ts[own][k], want, tol):
                    return 'market %s period %d: supplier %s records %r, the market assigns %r' % (m.FullCode, k, sup.FullCode, ts[own][k], want)
    return None


def run_program(prog):
    mod, objs = build(prog)
    mod.main()
    for chk in (lambda: M.check_markets(mod, prog), lambda: check_participants(mod, prog), lambda: check_assets(mod), lambda: M.check_ledger(mod, prog)):
        bad = chk()
        if bad:
            return bad
    return None


def markets(tier, seed, **opts):
    r = Result('random economies: 1-3 countries, own currencies or one federated zone (regional markets, a central government buying in another '
               "region's market, a firm of another region / currency as second supplier with a fixed share), treasury + central bank + money and deposit "
               'markets with an asset-allocation rule; solved over 4 periods: 25 (quick) / 500 (thorough); distinct = (variants, shape)')
    rnd = random.Random(seed)
    for i in range(25 if tier == 'quick' else 500):
        prog = make_program(rnd)
        try:
            bad = run_program(prog)
        except Exception as ex:
            import traceback
            bad = 'building / solving raised %s: %s' % (type(ex).__name__, traceback.format_exc()[-500:])
        key = (tuple(c['variant'] for c in prog['countries']), len(prog['suppliers']), bool(prog.get('cross_demand')), prog['external'])
        r.case(key, len(prog['countries']) > 1 or prog['countries'][0]['variant'] == 'pc', sample={'shape': key} if i < 2 else None)
        if bad:
            r.fail('markets', {'program': prog}, bad)
            break
    return r


FUNCS = {'markets': markets}


def replay(payload):
    if payload.get('kind') == 'bounded-failure':
        prog = payload['native']['input']['program']
        try:
            bad = run_program(prog)
        except Exception as ex:
            bad = 'building / solving raised %s: %s' % (type(ex).__name__, ex)
        return {'reproduced': bool(bad), 'detail': bad, 'input': prog}
    r = markets('quick', 0)
    if r.failures:
        return {'reproduced': True, 'detail': r.failures[0]['detail'], 'input': r.failures[0]['input'], 'note': 'found by the bounded search'}
    return {'reproduced': False, 'detail': 'no generated model violates the clearing identities'}


if __name__ == '__main__':
    main(FUNCS, replay)
