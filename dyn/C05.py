"""C05 bounded stand-in: generated systems are closed, canonical, placeholder-free (token scan of FinalEquations + solve)."""
import random, sys, os
sys.path.insert(0, os.path.dirname(os.path.abspath(__file__)))
from common import *   # noqa
import modelgen as M


def make_program(rnd):
    n = rnd.choice([1, 1, 2, 3])
    same_currency = rnd.random() < 0.4
    codes = ['CA', 'US', 'UK'][:n]
    countries = [M.economy(rnd, c, ('CAD' if same_currency else c + 'D')) for c in codes]
    if same_currency:
        # a federated zone: one central government and one tax flow (in the first country); the other members are regions
        for i, c in enumerate(countries):
            if c['variant'] in ('pc', 'sim_margin_cap'):
                c.update(M.economy(rnd, c['code'], c['currency'], 'sim'))
            if i > 0:
                c['sectors'] = [s for s in c['sectors'] if s['kind'] not in ('gov', 'tf')]
                c['exo'] = []
    prog = dict(external=(n > 1 and not same_currency and rnd.random() < 0.7), countries=countries, horizon=4)
    prog['embed'] = rnd.choice(['none', 'global', 'global_sum', 'product_term', 'suffix_clash'])
    return prog


def run_program(prog):
    mod, objs = M.build(prog)
    c0 = prog['countries'][0]
    hh = objs[(c0['code'], c0['hh'])]
    if prog['embed'] == 'global':
        # a name requested BEFORE full codes exist is a placeholder; embed it in a model-level equation
        mod.AddGlobalEquation('GLOB', 'twice household wealth', '2*' + hh.GetVariableName('F'))
    if prog['embed'] == 'global_sum':
        mod.AddGlobalEquation('GLOB', 'wealth plus income', hh.GetVariableName('F') + ' + ' + hh.GetVariableName('F') + ' + 0*' + hh.GetVariableName('INC'))
    if prog['embed'] == 'product_term':
        # placeholders inside a product term (a 'simple' term is NAME or NAME*NAME / NAME/NAME)
        hh.AddVariable('XTRA', 'wealth times a parameter', '')
        hh.AddTermToEquation('XTRA', hh.GetVariableName('F') + '*' + hh.GetVariableName('AlphaFin'))
    if prog['embed'] == 'suffix_clash':
        # a hand-written canonical name whose sector code ends in _<ID of the placeholder's sector>, next to that placeholder
        from sfc_models.sector import Sector
        co = hh.Parent
        other = Sector(co, 'B_%d' % hh.ID, has_F=False)
        other.AddVariable('AlphaFin', 'a constant with the same local name as the household parameter', '1.5')
        prefix = (co.Code + '_') if len(prog['countries']) > 1 else ''
        mod.AddGlobalEquation('GLOB', 'parameter less a constant', hh.GetVariableName('AlphaFin') + ' - ' + prefix + 'B_%d__AlphaFin' % hh.ID)
    mod.main()
    bad = M.check_closed(mod, prog)
    if bad:
        return bad
    if prog['embed'] == 'product_term':
        ts = mod.EquationSolver.TimeSeries
        for k in range(1, 4):
            if not M.close(ts[hh.GetVariableName('XTRA')][k], ts[hh.GetVariableName('F')][k] * ts[hh.GetVariableName('AlphaFin')][k]):
                return 'XTRA = F*AlphaFin does not hold in period %d' % k
    if prog['embed'] == 'suffix_clash':
        ts = mod.EquationSolver.TimeSeries
        for k in range(1, 4):
            if not M.close(ts['GLOB'][k], ts[hh.GetVariableName('AlphaFin')][k] - 1.5):
                return 'model-level equation GLOB = AlphaFin - 1.5 does not hold in period %d: %r vs %r' % (k, ts['GLOB'][k], ts[hh.GetVariableName('AlphaFin')][k] - 1.5)
    if prog['embed'] in ('global', 'global_sum'):
        ts = mod.EquationSolver.TimeSeries
        f = hh.GetVariableName('F')
        for k in range(1, 4):
            if not M.close(ts['GLOB'][k], 2 * ts[f][k]):
                return 'model-level equation GLOB = 2*%s does not hold: %r vs %r' % (f, ts['GLOB'][k], 2 * ts[f][k])
    return None


def closed(tier, seed, **opts):
    r = Result('random model programs: 1..3 countries (own or shared currency, optional external sector), household / business / government variants, '
               'placeholder names embedded in a model-level equation and / or an exogenous definition; 40 (quick) / 600 (thorough); '
               'non-trivial = a placeholder was embedded or there are several countries; distinct = (variants, countries, embedding)')
    rnd = random.Random(seed)
    for i in range(40 if tier == 'quick' else 600):
        prog = make_program(rnd)
        try:
            bad = run_program(prog)
        except Exception as ex:
            bad = 'building / solving raised %s: %s' % (type(ex).__name__, ex)
        key = (tuple(c['variant'] for c in prog['countries']), len(prog['countries']), prog['embed'], prog['external'])
        r.case(key, prog['embed'] != 'none' or len(prog['countries']) > 1, sample={'variants': key} if i < 2 else None)
        if bad:
            r.fail('closed', {'program': prog}, bad)
            break
    return r


FUNCS = {'closed': closed}


def replay(payload):
    if payload.get('kind') == 'bounded-failure':
        prog = payload['native']['input']['program']
        try:
            bad = run_program(prog)
        except Exception as ex:
            bad = 'building / solving raised %s: %s' % (type(ex).__name__, ex)
        return {'reproduced': bool(bad), 'detail': bad, 'input': prog}
    r = closed('quick', 0)
    if r.failures:
        return {'reproduced': True, 'detail': r.failures[0]['detail'], 'input': r.failures[0]['input'], 'note': 'found by the bounded search'}
    return {'reproduced': False, 'detail': 'no generated model violates closedness / canonical naming'}


if __name__ == '__main__':
    main(FUNCS, replay)
