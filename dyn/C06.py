"""
C06 / C12 bounded stand-in and replay vehicle (real Term / Equation / Sector objects, CPython eval as oracle).

  terms      Term(str): every string of <= 5 tokens over a small alphabet: when the constructor accepts,
             eval(squeezed string) == Constant * eval(Term) under several valuations, and Term is a product of <= 2 atoms
  equation   sequences of AddTerm on Equation objects (optionally after a blob): eval(RHS) == lead + sum of added terms
  sector     sequences of AddCashFlow / exclusions / AddVariable on a Sector: F == LAG_F + sum, INC == sum of income flows,
             definition rule
  join       utils.create_equation_from_terms: value of the join == sum of the pieces; argument list unchanged
"""
import itertools, random, sys, os, math, tokenize
sys.path.insert(0, os.path.dirname(os.path.abspath(__file__)))
from common import *   # noqa
from sfc_models.equation import Term, Equation
from sfc_models.utils import LogicError, create_equation_from_terms
from sfc_models.models import Model, Country
from sfc_models.sector import Sector

VALS = [{'x': 3.0, 'y': -7.0, 'z2': 0.5, 'LAG_F': 11.0, 'w': 2.0}, {'x': -1.25, 'y': 4.0, 'z2': 9.0, 'LAG_F': -2.0, 'w': -3.0}]


def ev(txt, env):
    return eval(txt, {'__builtins__': {}}, dict(env))


def close(a, b):
    return abs(a - b) <= 1e-9 * max(1.0, abs(a), abs(b))


# ---- Term(str) ---------------------------------------------------------------------------------------------
ALPHA = ['x', 'y', 'z2', '1.5', '2', '+', '-', '*', '/', '(', ')', ' ']


def check_term_string(s):
    """None if fine, else description"""
    try:
        t = Term(s)
    except (SyntaxError, LogicError, NotImplementedError, tokenize.TokenError):
        return None          # rejected (TokenError: unbalanced bracket inside the text; outside the statement's input domain)
    sq = str(s).strip().replace(' ', '')
    if t.IsBlob or not t.IsSimple:
        return 'non-blob constructor produced a blob'
    if t.Constant not in (1.0, -1.0):
        return 'Constant %r' % (t.Constant,)
    for env in VALS:
        try:
            want = ev(sq, env)
        except NameError:
            return None          # identifiers outside the test valuation (e.g. "xx"): nothing to compare
        except Exception:
            return 'accepted %r but the squeezed text %r does not evaluate' % (s, sq)
        try:
            got = t.Constant * ev(t.Term, env)
        except Exception as ex:
            return 'accepted %r but Term %r does not evaluate (%r)' % (s, t.Term, ex)
        if not close(want, got):
            return 'Term(%r): value %r but Constant*V(Term) = %r*V(%r) = %r' % (s, want, t.Constant, t.Term, got)
    return None


def terms(tier, seed, **opts):
    r = Result('all strings of <= N tokens over {x y z2 1.5 2 + - * / ( ) space} (N = 4 quick, 5 thorough), exhaustive; '
               'non-trivial = accepted by the constructor; distinct = distinct strings')
    N = 4 if tier == 'quick' else 5
    r.exhaustive = True
    for n in range(1, N + 1):
        for toks in itertools.product(ALPHA, repeat=n):
            s = ''.join(toks)
            bad = check_term_string(s)
            accepted = False
            try:
                Term(s)
                accepted = True
            except Exception:
                pass
            r.case(s, accepted, sample={'string': s} if accepted and n >= 3 else None)
            if bad:
                r.fail('Term', {'string': s}, bad)
                return r
    return r


# ---- Equation.AddTerm / GetRightHandSide ---------------------------------------------------------------------
TERMS = ['x', '-x', '+y', '-(+y)', '-(-x)', 'x*y', '-x*y', 'x/z2', '2', '-1.5', '(x)', '+(-y)', 'z2', '-z2']
LEADS = [None, 'x', 'y', 'x+y*2', '-x', '(x-y)', '2', 'x*y', 'max(x,y)']


def check_equation(lead, seq):
    if lead is None:
        eq = Equation('v', 'd')
    else:
        eq = Equation('v', 'd', [Term(lead, is_blob=True)])
    for t in seq:
        eq.AddTerm(t)
    rhs = eq.GetRightHandSide()
    if rhs == '':
        return 'empty right-hand side'
    for env in VALS:
        env2 = dict(env)
        env2['max'] = max
        want = (0.0 if lead is None else eval(lead.replace(' ', ''), {'__builtins__': {}}, env2)) + sum(ev(t.strip().replace(' ', ''), env) for t in seq)
        try:
            got = eval(rhs, {'__builtins__': {}}, env2)
        except Exception as ex:
            return 'RHS %r does not evaluate: %r' % (rhs, ex)
        if not close(want, got):
            return 'lead=%r terms=%r: RHS %r = %r, expected %r' % (lead, seq, rhs, got, want)
    return None


def check_shared_term_objects():
    """the same Term OBJECT added several times / to several equations: each addition counts once"""
    for n in (2, 3, 4):
        t = Term('y')
        eq = Equation('v', 'd')
        for _ in range(n):
            eq.AddTerm(t)
        for env in VALS:
            got = ev(eq.GetRightHandSide(), env)
            if not close(got, n * env['y']):
                return 'Term object y added %d times renders %r = %r, expected %r' % (n, eq.GetRightHandSide(), got, n * env['y'])
        if t.Constant != 1.0:
            return 'the caller\'s Term object was modified (Constant %r)' % (t.Constant,)
    t = Term('-x')
    e1, e2 = Equation('a', ''), Equation('b', '')
    e1.AddTerm(t); e2.AddTerm(t); e2.AddTerm('-x'); e2.AddTerm(t)
    for env in VALS:
        if not close(ev(e1.GetRightHandSide(), env), -env['x']) or not close(ev(e2.GetRightHandSide(), env), -3 * env['x']):
            return 'Term object shared between two equations: %r, %r' % (e1.GetRightHandSide(), e2.GetRightHandSide())
    return None


def equation(tier, seed, **opts):
    r = Result('Equation after an optional blob lead (9 leads incl. one spelled like a later term) + every sequence of <= L AddTerm calls '
               'over 14 signed / bracketed / product terms (L = 2 quick exhaustive; L = 3 thorough exhaustive + 20000 random of length 4..7); '
               'non-trivial = at least two terms share a text (merge / cancel); distinct = (lead, sequence)')
    L = 2 if tier == 'quick' else 3
    rnd = random.Random(seed)
    seqs = [s for n in range(0, L + 1) for s in itertools.product(TERMS, repeat=n)]
    if tier != 'quick':
        seqs += [tuple(rnd.choice(TERMS) for _ in range(rnd.randint(4, 7))) for _ in range(20000)]
    bad = check_shared_term_objects()
    r.case(('shared Term objects',), True)
    if bad:
        r.fail('Equation-shared', {}, bad)
        return r
    for lead in LEADS:
        for seq in seqs:
            texts = [Term(t).Term for t in seq]
            bad = check_equation(lead, list(seq))
            r.case((lead, seq), len(set(texts)) < len(texts) or (lead is not None and lead in texts),
                   sample={'lead': lead, 'terms': list(seq)} if len(seq) >= 2 else None)
            if bad:
                r.fail('Equation', {'lead': lead, 'terms': list(seq)}, bad)
                return r
    return r


# ---- Sector.AddCashFlow ----------------------------------------------------------------------------------------
FLOWS = ['x', '-x', '+y', '-y', 'x*y', '-x*y', '-(+x)', '(y)', 'w', '-w']


def check_sector(ops):
    """ops: list of ('flow', term, eqn_or_None, is_income) | ('excl', name) | ('var', name, eqn)"""
    mod = Model()
    c = Country(mod, 'C')
    s = Sector(c, 'S')
    other = Sector(c, 'OTHER')
    flows, income = [], []
    defs = {}
    for op in ops:
        if op[0] == 'excl':
            mod.AddCashFlowIncomeExclusion(s, op[1])
        elif op[0] == 'excl_other':          # an exclusion registered for ANOTHER sector must not apply here
            mod.AddCashFlowIncomeExclusion(other, op[1])
        elif op[0] == 'var':
            s.AddVariable(op[1], 'd', op[2])
            defs[op[1]] = op[2]
        else:
            _, term, eqn, is_inc = op
            t = Term(term)
            excluded = any(o.ID == s.ID and name == t.Term for (o, name) in mod.IncomeExclusions)
            before = dict((v, s.EquationBlock[v].RHS()) for v in s.GetVariables())
            s.AddCashFlow(term, eqn, 'd', is_income=is_inc)
            flows.append(term)
            if is_inc and not excluded:
                income.append(term)
            if eqn is not None:
                name = t.Term
                if name not in before or before[name] in ('', '0.0'):
                    defs[name] = eqn
                if name in before and before[name] not in ('', '0.0') and s.EquationBlock[name].RHS() != before[name]:
                    return 'definition of %s overwritten: %r -> %r' % (name, before[name], s.EquationBlock[name].RHS())
                if (name not in before or before[name] in ('', '0.0')) and s.EquationBlock[name].RHS() != Term(eqn, is_blob=True).Term and not (eqn.strip() == '' and s.EquationBlock[name].RHS() == '0.0'):
                    return 'flow variable %s not defined by %r (is %r)' % (name, eqn, s.EquationBlock[name].RHS())
            for v, rhs in before.items():
                if v not in ('F', 'INC') and v != t.Term and s.EquationBlock[v].RHS() != rhs:
                    return 'unrelated variable %s changed' % v
    for env in VALS:
        wantF = env['LAG_F'] + sum(ev(f.replace(' ', ''), env) for f in flows)
        wantI = sum(ev(f.replace(' ', ''), env) for f in income)
        gotF = ev(s.EquationBlock['F'].RHS(), env)
        gotI = ev(s.EquationBlock['INC'].RHS(), env)
        if not close(wantF, gotF):
            return 'F = %r evaluates to %r, expected LAG_F + flows = %r (ops %r)' % (s.EquationBlock['F'].RHS(), gotF, wantF, ops)
        if not close(wantI, gotI):
            return 'INC = %r evaluates to %r, expected %r (ops %r)' % (s.EquationBlock['INC'].RHS(), gotI, wantI, ops)
    return None


def sector(tier, seed, **opts):
    r = Result('random operation sequences (<= 6 ops) on one Sector: cash flows over 10 signed terms with/without defining expression, '
               'income flag, exclusions and prior variable definitions; 1500 (quick) / 30000 (thorough) sequences; '
               'non-trivial = a flow text repeats or an exclusion applies; distinct = distinct sequences')
    rnd = random.Random(seed)
    n = 1500 if tier == 'quick' else 30000
    for i in range(n):
        ops = []
        for _ in range(rnd.randint(1, 6)):
            c = rnd.random()
            if c < 0.1:
                ops.append(('excl', rnd.choice(['x', 'y', 'w', 'x*y'])))
            elif c < 0.18:
                ops.append(('excl_other', rnd.choice(['x', 'y', 'w'])))
            elif c < 0.3:
                ops.append(('var', rnd.choice(['x', 'y', 'w']), rnd.choice(['', '0.0', 'z2', '2*z2'])))
            else:
                term = rnd.choice(FLOWS)
                eqn = rnd.choice([None, None, 'z2', '', '3*z2'])
                if Term(term).Term in ('x*y',):
                    eqn = None
                ops.append(('flow', term, eqn, rnd.random() < 0.7))
        names = [Term(o[1]).Term for o in ops if o[0] == 'flow']
        bad = check_sector(ops)
        r.case(tuple(ops), len(set(names)) < len(names) or any(o[0] == 'excl' for o in ops), sample={'ops': ops} if i < 3 else None)
        if bad:
            r.fail('Sector', {'ops': ops}, bad)
            return r
    return r


# ---- create_equation_from_terms -----------------------------------------------------------------------------------
PIECES = ['x', '-x', '+y', ' y', 'x*y', '-x*y', '2', '-1.5', 'x+y', '+x-y', ' -z2 ', 'x/z2']


def check_join(pieces):
    arg = list(pieces)
    try:
        out = create_equation_from_terms(arg)
    except Exception as ex:
        return 'raised %r' % (ex,)
    if arg != list(pieces):
        return 'argument list changed: %r -> %r' % (list(pieces), arg)
    if not pieces:
        return None if out == '' else 'empty list gives %r' % out
    for env in VALS:
        want = sum(ev(p.strip(), env) for p in pieces)
        try:
            got = ev(out, env)
        except Exception as ex:
            return 'join %r of %r does not evaluate (%r)' % (out, list(pieces), ex)
        if not close(want, got):
            return 'join %r of %r = %r, expected %r' % (out, list(pieces), got, want)
    return None


def join(tier, seed, **opts):
    r = Result('create_equation_from_terms on every list of <= L signed pieces over 12 pieces incl. sums and padded ones (L = 2 quick, 3 thorough), '
               'exhaustive; non-trivial = >= 2 pieces; distinct = distinct lists')
    L = 2 if tier == 'quick' else 3
    r.exhaustive = True
    for n in range(0, L + 1):
        for ps in itertools.product(PIECES, repeat=n):
            bad = check_join(ps)
            r.case(ps, n >= 2, sample={'pieces': list(ps)} if n == 2 else None)
            if bad:
                r.fail('join', {'pieces': list(ps)}, bad)
                return r
    return r


FUNCS = {'terms': terms, 'equation': equation, 'sector': sector, 'join': join}


def replay(payload):
    if payload.get('kind') == 'bounded-failure':
        nat = payload['native']
        inp = nat['input']
        f = {'Equation-shared': check_shared_term_objects, 'Term': lambda: check_term_string(inp['string']), 'Equation': lambda: check_equation(inp['lead'], inp['terms']),
             'Sector': lambda: check_sector([tuple(o) for o in inp['ops']]), 'join': lambda: check_join(inp['pieces'])}[nat['case_id']]
        bad = f()
        return {'reproduced': bool(bad), 'detail': bad, 'input': inp}
    ob = payload.get('obligation', '')
    order = ['equation', 'sector', 'join', 'terms']
    if 'create_equation_from_terms' in ob:
        order = ['join']
    elif 'Term.__init__' in ob or 'Term.__str__' in ob:
        order = ['terms', 'equation']
    elif 'AddCashFlow' in ob or 'Sector' in ob:
        order = ['sector', 'equation']
    for name in order:
        r = FUNCS[name]('quick', 0)
        if r.failures:
            return {'reproduced': True, 'detail': r.failures[0]['detail'], 'input': r.failures[0]['input'],
                    'note': 'failing input found by the bounded search of the same contract (%s)' % name}
    return {'reproduced': False, 'detail': 'no natively failing input in the bounded search'}


if __name__ == '__main__':
    main(FUNCS, replay)
