"""C07 bounded stand-in and replay vehicle: generated multi-currency models with non-unit, time-varying exchange rates.

Checked natively on each solved model, every period:
  * sum over currencies of EXT_FX__NET_<cur> * EXT_XR__<cur>  +  EXT_FX__NET_NUMERAIRE  == 0
  * models whose cross-currency transactions are all send/receive pairs: EXT_FX__NET_NUMERAIRE == 0
  * every cross rate variable EXT_XR__<A>_<B> == EXT_XR__<A> / EXT_XR__<B>
  * every registered cross-zone flow: the receiver's ledger books  amount * XR_src / XR_tgt  (read off the receiver's F equation)
  * the same program without an external sector is refused with LogicError
"""
import random, sys, os, re
sys.path.insert(0, os.path.dirname(os.path.abspath(__file__)))
from common import *   # noqa
import modelgen as M
from sfc_models.utils import LogicError
from sfc_models.equation_parser import EquationParser


def rate_path(rnd, horizon):
    base = round(rnd.uniform(0.3, 3.0), 3)
    drift = round(rnd.uniform(-0.08, 0.08), 3)
    return '[' + ', '.join(repr(round(base * (1 + drift * k), 5)) for k in range(horizon + 12)) + ']'


def make_program(rnd):
    n = rnd.choice([2, 2, 3])
    codes = ['CA', 'US', 'UK'][:n]
    countries = [M.economy(rnd, c, c + 'D', variant=rnd.choice(['sim', 'sim', 'sim_margin_cap'])) for c in codes]
    horizon = 4
    prog = dict(external=True, countries=countries, horizon=horizon, flows=[], rates=[], gold=[], suppliers=[])
    for c in countries:
        prog['rates'].append((c['currency'], rate_path(rnd, horizon)))
    # registered cross-zone flows between households / governments
    for i in range(rnd.choice([1, 1, 2, 3])):
        a, b = rnd.sample(range(n), 2)
        src = countries[a]
        dst = countries[b]
        who_s = rnd.choice(['hh', 'gov'])
        who_d = rnd.choice(['hh', 'gov'])
        prog['flows'].append((src['code'], src[who_s], dst['code'], dst[who_d], 'GIFT%d' % i, repr(round(rnd.uniform(0.2, 2.0), 3))))
    if rnd.random() < 0.35:
        c = rnd.choice(countries)
        prog['gold'].append((c['code'], c['gov'], 'GOLDPURCHASES', repr(round(rnd.uniform(0.1, 1.0), 3)), round(rnd.uniform(5, 50), 1)))
    if rnd.random() < 0.4:
        # a foreign business also supplies the first country's goods market (fixed share of demand)
        a, b = rnd.sample(range(n), 2)
        prog['suppliers'].append((countries[a]['code'], countries[a]['roles']['good'], countries[b]['code'], countries[b]['roles']['bus'],
                                  round(rnd.uniform(0.05, 0.3), 3)))
    return prog


def build(prog):
    return M.build(prog)


def value(ts, text, k):
    """value of a product text  a*b*c  of series names / numbers in period k"""
    v = 1.0
    for f in text.split('*'):
        f = f.strip()
        v *= ts[f][k] if f in ts else float(f)
    return v


def check_model(prog, tol=2e-4):
    mod, objs = build(prog)
    mod.main()
    ts = mod.EquationSolver.TimeSeries
    T = mod.EquationSolver.Parser.MaxTime
    curs = [cz.Currency for cz in mod.CurrencyZoneList if cz.Currency != 'NUMERAIRE']
    paired = not prog.get('gold')
    for k in range(1, T + 1):
        tot, scale = 0.0, 1.0
        for cur in curs:
            n = 'EXT_FX__NET_' + cur
            if n in ts:
                tot += ts[n][k] * ts['EXT_XR__' + cur][k]
                scale = max(scale, abs(ts[n][k] * ts['EXT_XR__' + cur][k]))
        num = ts['EXT_FX__NET_NUMERAIRE'][k] if 'EXT_FX__NET_NUMERAIRE' in ts else 0.0
        if abs(tot + num) > tol * scale:
            return 'period %d: FX positions valued in the numeraire sum to %r (currencies %r + numeraire %r)' % (k, tot + num, tot, num)
        if paired and abs(num) > tol * scale:
            return 'period %d: numeraire position of the FX intermediary is %r although every transaction is a send/receive pair' % (k, num)
        for a in curs:
            for b in curs:
                nm = 'EXT_XR__%s_%s' % (a, b)
                if nm in ts and not M.close(ts[nm][k], ts['EXT_XR__' + a][k] / ts['EXT_XR__' + b][k]):
                    return 'period %d: cross rate %s = %r but %s/%s = %r' % (k, nm, ts[nm][k], a, b, ts['EXT_XR__' + a][k] / ts['EXT_XR__' + b][k])
    # receiver credit of each registered flow, read off the receiver's F equation in the final system
    parser = EquationParser()
    parser.ParseString(mod.FinalEquations)
    eqs = dict(parser.AllEquations)
    for (sc, ss, dc, ds, var, expr) in prog.get('flows', []):
        src, dst = objs[(sc, ss)], objs[(dc, ds)]
        amount = src.GetVariableName(var)
        rhs = eqs[dst.GetVariableName('F')]
        terms = [t for t in re.split(r'(?=[+-])', rhs.replace(' ', '')) if amount in re.split(r'[*+\-/()]', t)]
        if len(terms) != 1:
            return 'receiver %s books the flow %s in %d terms of its F equation: %r' % (dst.FullCode, amount, len(terms), rhs)
        t = terms[0]
        sign = -1.0 if t.startswith('-') else 1.0
        xs, xt = 'EXT_XR__' + src.CurrencyZone.Currency, 'EXT_XR__' + dst.CurrencyZone.Currency
        for k in range(1, T + 1):
            got = sign * value(ts, t.lstrip('+-'), k)
            want = ts[amount][k] * ts[xs][k] / ts[xt][k]
            if not M.close(got, want, 1e-6):
                return 'period %d: receiver %s is credited %r for %s = %r; amount * XR_src / XR_tgt = %r (term %r)' % (k, dst.FullCode, got, amount, ts[amount][k], want, t)
    bad = M.check_ledger(mod, prog)
    if bad:
        return bad
    return None


def check_refusal(prog):
    """the same program without an external sector: refused with LogicError (at registration or at model generation)"""
    p2 = dict(prog, external=False, rates=[], gold=[])
    try:
        mod, objs = build(p2)
        mod.main()
    except LogicError:
        return None
    except Exception as ex:
        return 'cross-currency model without an external sector raised %s (%s), not LogicError' % (type(ex).__name__, str(ex)[:120])
    return 'cross-currency model without an external sector was accepted'


def run_program(prog):
    bad = check_model(prog)
    if bad:
        return bad
    return check_refusal(prog)


def fx(tier, seed, **opts):
    r = Result('random 2-3 currency models (own closed economy per currency, external sector, exogenous non-unit time-varying exchange rates, '
               '1-3 registered cross-zone flows, optional gold purchases and cross-zone supplier), solved over 4 periods: 12 (quick) / 150 (thorough); '
               'non-trivial = all rates differ from 1 and from each other; distinct = (variants, flows, gold, suppliers)')
    rnd = random.Random(seed)
    for i in range(12 if tier == 'quick' else 150):
        prog = make_program(rnd)
        try:
            bad = run_program(prog)
        except Exception as ex:
            import traceback
            bad = 'building / solving raised %s: %s' % (type(ex).__name__, traceback.format_exc()[-400:])
        key = (tuple(c['variant'] for c in prog['countries']), len(prog['flows']), len(prog['gold']), len(prog['suppliers']))
        r.case(key, True, sample={'shape': key} if i < 2 else None)
        if bad:
            r.fail('fx', {'program': prog}, bad)
            break
    return r


FUNCS = {'fx': fx}


def replay(payload):
    if payload.get('kind') == 'bounded-failure':
        prog = payload['native']['input']['program']
        try:
            bad = run_program(prog)
        except Exception as ex:
            bad = 'building / solving raised %s: %s' % (type(ex).__name__, ex)
        return {'reproduced': bool(bad), 'detail': bad, 'input': prog}
    r = fx('quick', 0)
    if r.failures:
        return {'reproduced': True, 'detail': r.failures[0]['detail'], 'input': r.failures[0]['input'], 'note': 'found by the bounded search'}
    return {'reproduced': False, 'detail': 'no generated multi-currency model violates the FX identities'}


if __name__ == '__main__':
    main(FUNCS, replay)
