"""C08 bounded stand-in: the solution does not depend on the order in which sectors are declared."""
import copy, itertools, random, sys, os
sys.path.insert(0, os.path.dirname(os.path.abspath(__file__)))
from common import *   # noqa
import modelgen as M


def solve_series(prog):
    mod, objs = M.solve(prog)
    return M.series(mod)


def make_case(rnd):
    n = rnd.choice([1, 1, 2])
    same_currency = n > 1 and rnd.random() < 0.5
    codes = ['CA', 'US'][:n]
    countries = [M.economy(rnd, c, ('CAD' if same_currency else c + 'D')) for c in codes]
    if same_currency:
        for i, c in enumerate(countries):
            if c['variant'] in ('pc', 'sim_margin_cap'):
                c.update(M.economy(rnd, c['code'], c['currency'], 'sim'))
            if i > 0:
                c['sectors'] = [s for s in c['sectors'] if s['kind'] not in ('gov', 'tf')]
                c['exo'] = []
    prog = dict(external=False, countries=countries, horizon=4)
    base = [(ci, si) for ci, c in enumerate(countries) for si in range(len(c['sectors']))]
    order = list(base)
    rnd.shuffle(order)
    if rnd.random() < 0.5:
        # keep countries contiguous (permutation within each country only)
        order.sort(key=lambda t: t[0])
    return prog, order


def run_case(prog, order):
    a = solve_series(prog)
    b = solve_series(dict(prog, order=order))
    if set(a) != set(b):
        return 'different variables: only in declared order %r, only in permuted order %r' % (sorted(set(a) - set(b))[:4], sorted(set(b) - set(a))[:4])
    for name in sorted(a):
        for k, (x, y) in enumerate(zip(a[name], b[name])):
            if not M.close(x, y, 2e-4):
                return 'variable %s differs in period %d: %r (declared order) vs %r (permuted order %r)' % (name, k, x, y, order)
    return None


def permutations(tier, seed, **opts):
    r = Result('random economies (1-2 countries, own or shared currency; sim / capitalists+margin / expectations / treasury+central bank+asset markets), '
               'sectors declared in a random permutation (all permutations are dependency-respecting: constructors take codes, not objects) vs the '
               'catalogue order; all series compared: 20 (quick) / 400 (thorough); plus every permutation of the 6 sectors of model SIM in thorough')
    rnd = random.Random(seed)
    cases = []
    for i in range(20 if tier == 'quick' else 400):
        cases.append(make_case(rnd))
    if tier != 'quick':
        e = M.economy(random.Random(1), 'CA', 'CAD', 'sim')
        p = dict(external=False, countries=[e], horizon=3)
        for perm in itertools.permutations(range(len(e['sectors']))):
            cases.append((p, [(0, i) for i in perm]))
    else:
        e = M.economy(random.Random(1), 'CA', 'CAD', 'sim')
        p = dict(external=False, countries=[e], horizon=3)
        kinds = [s['kind'] + ':' + s.get('code', '') for s in e['sectors']]
        # the documented exception: the labour market before the business
        lab, bus = kinds.index('market:LAB'), kinds.index('bus:BUS')
        perm = list(range(len(kinds)))
        perm.remove(lab)
        perm.insert(perm.index(bus), lab)
        cases.append((p, [(0, i) for i in perm]))
    for i, (prog, order) in enumerate(cases):
        try:
            bad = run_case(prog, order)
        except Exception as ex:
            import traceback
            bad = 'building / solving raised %s: %s' % (type(ex).__name__, traceback.format_exc()[-500:])
        key = (tuple(c['variant'] for c in prog['countries']), tuple(order))
        r.case(key, order != sorted(order), sample={'order': order} if i < 2 else None)
        if bad:
            r.fail('permutations', {'program': prog, 'order': order}, bad)
            break
    return r


def catalogue(tier, seed, **opts):
    """fixed topology outside the random generator: two dividend-paying firms and one capitalist sector (finding F8, repaired in 338f859: the recipient of
    the second firm's dividend is found by scanning the country's sectors for a DIV variable, which the first firm itself has by then)"""
    import C01
    r = Result('the two-dividend-payers topology of dyn/C01.py under 3 fixed permutations of the declarations')
    (cid, prog) = [c for c in C01.catalogue_programs() if c[0] == 'two-dividend-payers'][0]
    for perm in ([4, 6, 0, 2, 7, 1, 8, 3, 5], [0, 3, 7, 2, 1, 5, 4, 6, 8], [5, 6, 7, 4, 3, 0, 8, 1, 2]):
        order = [(0, i) for i in perm]
        try:
            bad = run_case(prog, order)
        except Exception as ex:
            bad = 'raised %s: %s' % (type(ex).__name__, str(ex)[:200])
        r.case(('two-dividend-payers', tuple(perm)), True)
        if bad:
            r.fail('two-dividend-payers', {'program': prog, 'order': order}, bad)
            break
    return r


FUNCS = {'permutations': permutations, 'catalogue': catalogue}


def replay(payload):
    if payload.get('kind') == 'bounded-failure':
        inp = payload['native']['input']
        try:
            bad = run_case(inp['program'], [tuple(x) for x in inp['order']])
        except Exception as ex:
            bad = 'building / solving raised %s: %s' % (type(ex).__name__, ex)
        return {'reproduced': bool(bad), 'detail': bad, 'input': inp}
    r = permutations('quick', 0)
    if r.failures:
        return {'reproduced': True, 'detail': r.failures[0]['detail'], 'input': r.failures[0]['input'], 'note': 'found by the bounded search'}
    return {'reproduced': False, 'detail': 'no generated economy depends on the declaration order'}


if __name__ == '__main__':
    main(FUNCS, replay)
