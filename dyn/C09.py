"""C09 bounded stand-in and replay: the bundled Godley-Lavoie builders (SIM, SIMEX1, PC) and the hand-coded iterative SIM against the book's recursions
evaluated independently in closed form, for random admissible parameters, exogenous paths and initial stocks."""
import random, sys, os
sys.path.insert(0, os.path.dirname(os.path.abspath(__file__)))
from common import *   # noqa
from sfc_models.gl_book.chapter3 import SIM, SIMEX1
from sfc_models.gl_book.chapter4 import PC
from sfc_models.gl_book.model_SIM_iterative import ModelSIMiterative

T = 8


def params(rnd, digits):
    r = lambda lo, hi: round(rnd.uniform(lo, hi), digits)
    return dict(a1=r(0.5, 0.9), a2=r(0.1, 0.5), th=r(0.05, 0.4), G=[0.0] + [r(10, 40) for _ in range(T + 2)], H0=r(0, 30),
                l0=r(0.4, 0.8), l1=r(1, 8), l2=r(0.005, 0.02), r=[r(0.01, 0.05) for _ in range(T + 3)])


def closed_sim(p, expectations=False, yd0=0.0):
    Y, Tx, YD, C, H = [0.0], [0.0], [yd0], [0.0], [p['H0']]
    for k in range(1, T + 1):
        G = p['G'][k]
        if expectations:
            c = p['a1'] * YD[k - 1] + p['a2'] * H[k - 1]
            y = c + G
        else:
            y = (G + p['a2'] * H[k - 1]) / (1.0 - p['a1'] * (1.0 - p['th']))
        t = p['th'] * y
        yd = y - t
        if not expectations:
            c = p['a1'] * yd + p['a2'] * H[k - 1]
        Y.append(y); Tx.append(t); YD.append(yd); C.append(c); H.append(H[k - 1] + yd - c)
    return dict(Y=Y, T=Tx, YD=YD, C=C, H=H)


def run_sim(p, cls):
    b = cls('C1', use_book_exogenous=False)
    mod = b.build_model()
    hh, tf, gov = mod['C1']['HH'], mod['C1']['TF'], mod['C1']['GOV']
    hh.AlphaIncome, hh.AlphaFin, tf.TaxRate = p['a1'], p['a2'], p['th']
    gov.SetExogenous('DEM_GOOD', repr(p['G'] + [p['G'][-1]] * 20))
    mod.AddInitialCondition('HH', 'F', p['H0'])
    yd0 = 0.0
    if cls is SIMEX1:
        yd0 = round(p['G'][1] * (1 - p['th']), 6)
        mod.AddInitialCondition('HH', 'AfterTax', yd0)
    mod.MaxTime = T
    mod.EquationSolver.ParameterErrorTolerance = 1e-9
    mod.EquationSolver.MaxIterations = 20000
    mod.main()
    ts = mod.EquationSolver.TimeSeries
    want = closed_sim(p, expectations=(cls is SIMEX1), yd0=yd0)
    got = dict(Y=ts['GOOD__SUP_GOOD'], T=ts['GOV__T'], YD=ts['HH__AfterTax'], C=ts['HH__DEM_GOOD'], H=ts['HH__F'])
    return compare(got, want, 1)


def compare(got, want, k0, tol=1e-6):
    for name in sorted(want):
        for k in range(k0, T + 1):
            a, b = got[name][k], want[name][k]
            if abs(a - b) > tol * max(1.0, abs(b)):
                return '%s(%d) = %r, the closed-form recursion gives %r' % (name, k, a, b)
    return None


def closed_pc(p, V0, B0):
    Y, Tx, YD, C, V, B, Hh = [0.0], [0.0], [0.0], [0.0], [V0], [B0], [V0 - B0]
    for k in range(1, T + 1):
        G, r1 = p['G'][k], p['r'][k - 1]
        a = p['a1'] * (1.0 - p['th'])
        y = (a * r1 * B[k - 1] + p['a2'] * V[k - 1] + G) / (1.0 - a)
        t = p['th'] * (y + r1 * B[k - 1])
        yd = y - t + r1 * B[k - 1]
        c = p['a1'] * yd + p['a2'] * V[k - 1]
        v = V[k - 1] + yd - c
        b = v * (p['l0'] + p['l1'] * p['r'][k]) - p['l2'] * yd
        Y.append(y); Tx.append(t); YD.append(yd); C.append(c); V.append(v); B.append(b); Hh.append(v - b)
    return dict(Y=Y, T=Tx, YD=YD, C=C, V=V, B=B, Hh=Hh)


def run_pc(p):
    b = PC('C1', use_book_exogenous=False)
    mod = b.build_model()
    c = mod['C1']
    hh, tf, tre, dep = c['HH'], c['TF'], c['TRE'], c['DEP']
    hh.AlphaIncome, hh.AlphaFin, tf.TaxRate = p['a1'], p['a2'], p['th']
    hh.SetEquationRightHandSide('L0', repr(p['l0']))
    hh.SetEquationRightHandSide('L1', repr(p['l1']))
    hh.SetEquationRightHandSide('L2', repr(p['l2']))
    tre.SetExogenous('DEM_GOOD', repr(p['G'] + [p['G'][-1]] * 20))
    dep.SetExogenous('r', repr(p['r'] + [p['r'][-1]] * 20))
    V0 = p['H0'] + 20.0
    B0 = round(0.6 * V0, 6)
    mod.AddInitialCondition('HH', 'F', V0)
    mod.AddInitialCondition('TRE', 'F', -V0)
    mod.AddInitialCondition('HH', 'DEM_DEP', B0)
    mod.MaxTime = T
    mod.EquationSolver.ParameterErrorTolerance = 1e-9
    mod.EquationSolver.MaxIterations = 20000
    mod.main()
    ts = mod.EquationSolver.TimeSeries
    want = closed_pc(p, V0, B0)
    got = dict(Y=ts['GOOD__SUP_GOOD'], T=ts['TRE__T'], YD=ts['HH__AfterTax'], C=ts['HH__DEM_GOOD'], V=ts['HH__F'], B=ts['HH__DEM_DEP'], Hh=ts['HH__DEM_MON'])
    return compare(got, want, 1)


def run_iterative(p):
    m = ModelSIMiterative()
    m.theta, m.alpha1, m.alpha2 = p['th'], p['a1'], p['a2']
    m.G = list(p['G'])
    for _ in range(T):
        m.RunStep()
    want = closed_sim(dict(p, H0=m.H[0]))
    got = dict(Y=m.Y, T=m.tax, YD=m.YD, C=m.C, H=m.H)
    for name in sorted(want):
        for k in range(1, T + 1):
            a, b = got[name][k], want[name][k]
            # its own stopping rule is |change in Y| <= .001: agreement to a few times that
            if abs(a - b) > 2e-2 * max(1.0, abs(b) / 10.0):
                return 'hand-coded iterative SIM: %s(%d) = %r, closed form %r' % (name, k, a, b)
    return None


def run_case(kind, p):
    if kind == 'SIM':
        return run_sim(p, SIM)
    if kind == 'SIMEX1':
        return run_sim(p, SIMEX1)
    if kind == 'PC':
        return run_pc(p)
    return run_iterative(p)


def textbook(tier, seed, **opts):
    r = Result('the bundled builders SIM, SIMEX1, PC with random admissible parameters (propensities, tax rate, portfolio parameters with 2..6 decimals), random '
               'government-spending and interest-rate paths, random initial stocks, solved over 8 periods at tolerance 1e-9 and compared at 1e-6 with the book '
               "recursions in closed form; the hand-coded iterative SIM with random parameters: 24 (quick) / 400 (thorough)")
    rnd = random.Random(seed)
    for i in range(24 if tier == 'quick' else 400):
        kind = ['SIM', 'SIMEX1', 'PC', 'ITER'][i % 4]
        p = params(rnd, rnd.choice([2, 3, 4, 5, 6]))
        try:
            bad = run_case(kind, p)
        except Exception as ex:
            import traceback
            bad = 'raised %s: %s' % (type(ex).__name__, traceback.format_exc()[-500:])
        r.case((kind, i % 5), True, sample={'kind': kind, 'p': p} if i < 2 else None)
        if bad:
            r.fail('textbook', {'kind': kind, 'p': p}, kind + ': ' + bad)
            break
    return r


FUNCS = {'textbook': textbook}


def replay(payload):
    if payload.get('kind') == 'bounded-failure':
        inp = payload['native']['input']
        try:
            bad = run_case(inp['kind'], inp['p'])
        except Exception as ex:
            bad = 'raised %s: %s' % (type(ex).__name__, ex)
        return {'reproduced': bool(bad), 'detail': bad, 'input': inp}
    r = textbook('quick', 0)
    if r.failures:
        return {'reproduced': True, 'detail': r.failures[0]['detail'], 'input': r.failures[0]['input'], 'note': 'found by the bounded search'}
    return {'reproduced': False, 'detail': 'the bundled models follow the closed-form recursions'}


if __name__ == '__main__':
    main(FUNCS, replay)
