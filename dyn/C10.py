"""
C10 bounded stand-in / replay: k=0 installation and the end-to-end "verbatim" statement on the real solver and Model API.
"""
import random, sys, os, math
sys.path.insert(0, os.path.dirname(os.path.abspath(__file__)))
from common import *   # noqa
from sfc_models.equation_solver import EquationSolver


def build_case(rnd):
    T = rnd.randint(0, 6)
    side = rnd.choice(['parser', 'solver'])
    exo_kind = rnd.choice(['list', 'tuple', 'expr', 'scalar', 'short', 'bad', 'none'])
    n = T + 2 + rnd.randint(0, 3)
    vals = [round(rnd.uniform(-50, 50), 3) for _ in range(n)]
    user_t = rnd.random() < 0.25
    alias = rnd.random() < 0.4
    ic_on = rnd.choice(['x', 'LAGX', 'd', 'c', None] + (['a', 'a', 'LAGA'] if alias else []))
    ic_val = round(rnd.uniform(-9, 9), 2)
    lines = ['x = 0.5*LAGX + g + c', 'LAGX = x(k-1)', 'd = 2*x + 1', 'c = 3.']
    if alias:
        # an exact alias of x (equation reduction substitutes it), itself the source of a lag
        lines += ['a = x', 'LAGA = a(%s-1)' % rnd.choice(['k', 't']), 'ee = LAGA + a']
    second_T = rnd.choice([None, None, rnd.randint(0, 6)]) if side == 'parser' else None
    if user_t:
        lines.append('t = 10 + k')
    if ic_on:
        lines.append('%s(0) = %r' % (ic_on, ic_val))
    lines.append('exogenous')
    expect_error = False
    if exo_kind == 'list':
        lines.append('g = %r' % (vals,)); path = vals
    elif exo_kind == 'tuple':
        lines.append('g = %r' % (tuple(vals),)); path = vals
    elif exo_kind == 'expr':
        lines.append('g = [%r]*%d + [%r]*%d' % (vals[0], 2, vals[1], n)); path = [vals[0]] * 2 + [vals[1]] * n
    elif exo_kind == 'scalar':
        lines.append('g = %r' % (float(vals[0]),)); path = [float(vals[0])] * (T + 1)
    elif exo_kind == 'short':
        if T == 0:
            lines.append('g = []'); path = []
        else:
            lines.append('g = %r' % (vals[:T],)); path = vals[:T]
        expect_error = True
    elif exo_kind == 'bad':
        lines.append('g = [1., 2.'); path = None; expect_error = True
    else:
        lines[0] = 'x = 0.5*LAGX + c'; path = None
    if side == 'parser':
        lines.append('MaxTime = %d' % T)
    else:
        lines.append('MaxTime = %d' % (T + 3))
    return dict(alias=alias, second_T=second_T, text='\n'.join(lines), T=T, side=side, exo_kind=exo_kind, path=path, user_t=user_t, ic_on=ic_on, ic_val=ic_val, expect_error=expect_error)


def check_case(c):
    import warnings
    s = EquationSolver()
    if c['side'] == 'solver':
        s.MaxTime = c['T']
    try:
        s.ParseString(c['text'])
    except Exception as ex:
        return None, False
    try:
        s.SolveEquation()
    except ValueError as ex:
        if c['expect_error']:
            return None, True
        if c['exo_kind'] == 'expr' and len(c['path']) < c['T'] + 1:
            return None, True
        return 'unexpected ValueError %s for %r' % (ex, c['text']), True
    except Exception as ex:
        return 'unexpected %s: %s for %r' % (type(ex).__name__, ex, c['text']), True
    if c['expect_error']:
        return 'an exogenous series that is too short / cannot be evaluated was accepted: %r' % (c['text'],), True
    T = c['T']
    ts = s.TimeSeries
    for name, ser in ts.items():
        if len(ser) != T + 1:
            return 'series %s has %d points, horizon+1 = %d (%r)' % (name, len(ser), T + 1, c['text']), True
    if c['path'] is not None and ts['g'] != list(c['path'])[:T + 1]:
        return 'exogenous g = %r, supplied %r' % (ts['g'], list(c['path'])[:T + 1]), True
    if c['ic_on'] and ts[c['ic_on']][0] != c['ic_val']:
        return 'initial condition %s(0) = %r but series starts %r' % (c['ic_on'], c['ic_val'], ts[c['ic_on']][0]), True
    for k in range(1, T + 1):
        if ts['LAGX'][k] != ts['x'][k - 1]:
            return 'LAGX(%d) = %r != x(%d) = %r' % (k, ts['LAGX'][k], k - 1, ts['x'][k - 1]), True
        if c.get('alias') and ts['LAGA'][k] != ts['a'][k - 1]:
            return 'LAGA(%d) = %r != a(%d) = %r  (a = %r, x = %r; %r)' % (k, ts['LAGA'][k], k - 1, ts['a'][k - 1], ts['a'], ts['x'], c['text']), True
    if c.get('second_T') is not None:
        # the same solver object re-parsed with another horizon: the new horizon is the one stated in the new block
        T2 = c['second_T']
        try:
            s.ParseString(c['text'].replace('MaxTime = %d' % T, 'MaxTime = %d' % T2))
            s.SolveEquation()
        except ValueError:
            if not (c['path'] is not None and len(c['path']) < T2 + 1):
                return 'second solve with MaxTime = %d raised ValueError (%r)' % (T2, c['text']), True
        else:
            for name, ser in s.TimeSeries.items():
                if len(ser) != T2 + 1:
                    return 'second solve on the same solver: MaxTime = %d stated, series %s has %d points (%r)' % (T2, name, len(ser), c['text']), True
    if ts['k'] != [float(i) for i in range(T + 1)]:
        return 'k axis %r' % (ts['k'],), True
    if not c['user_t'] and ts['t'] != ts['k']:
        return 'time axis t = %r differs from k' % (ts['t'],), True
    if c['user_t'] and ts['t'][1:] != [10.0 + i for i in range(1, T + 1)]:
        return 'user time axis not honoured: %r' % (ts['t'],), True
    return None, True


def verbatim(tier, seed, **opts):
    r = Result('random blocks (see bound); non-trivial = the block parsed; distinct = (horizon, side, exogenous form, time axis, initial condition target)')
    rnd = random.Random(seed)
    for i in range(300 if tier == 'quick' else 6000):
        c = build_case(rnd)
        bad, ok = check_case(c)
        r.case((c['T'], c['side'], c['exo_kind'], c['user_t'], c['ic_on']), ok, sample=c if i < 2 else None)
        if bad:
            r.fail('verbatim', c, bad)
            break
    return r


FUNCS = {'verbatim': verbatim}


def replay(payload):
    if payload.get('kind') == 'bounded-failure':
        c = payload['native']['input']
        bad, ok = check_case(c)
        return {'reproduced': bool(bad), 'detail': bad, 'input': c}
    r = verbatim('quick', 0)
    if r.failures:
        return {'reproduced': True, 'detail': r.failures[0]['detail'], 'input': r.failures[0]['input'], 'note': 'found by the bounded search'}
    sys.path.insert(0, os.path.dirname(os.path.abspath(__file__)))
    import C02
    return C02.replay(payload)


if __name__ == '__main__':
    main(FUNCS, replay)
