"""C11 bounded stand-in (model-level part): invalid requests are rejected EVERY time they are made, never answered with numbers."""
import random, sys, os
sys.path.insert(0, os.path.dirname(os.path.abspath(__file__)))
from common import *   # noqa
from sfc_models.models import Model, Country
from sfc_models.sector import Sector, Market
from sfc_models.sector_definitions import Household, ConsolidatedGovernment, TaxFlow, FixedMarginBusiness
from sfc_models.utils import LogicError


def base(n_suppliers):
    mod = Model()
    c = Country(mod, 'CA')
    gov = ConsolidatedGovernment(c, 'GOV')
    hh = Household(c, 'HH')
    for i in range(n_suppliers - 1):
        Household(c, 'HH%d' % (i + 2))          # every household supplies labour: the labour market becomes ambiguous
    if n_suppliers == 0:
        hh.EquationBlock.Equations.pop('SUP_LAB')
    FixedMarginBusiness(c, 'BUS')
    Market(c, 'LAB'); Market(c, 'GOOD')
    TaxFlow(c, 'TF', taxrate=0.2)
    gov.SetExogenous('DEM_GOOD', '[20.]*20')
    mod.MaxTime = 3
    return mod, c


def attempt(label, action, want, times):
    """the same invalid request, `times` times on the same objects: every attempt must raise `want`"""
    for i in range(times):
        try:
            action()
        except want:
            continue
        except Exception as ex:
            return '%s, attempt %d: raised %s (%s), expected %s' % (label, i + 1, type(ex).__name__, str(ex)[:100], want.__name__)
        return '%s, attempt %d: accepted (no error)' % (label, i + 1)
    return None


def cases():
    out = []
    for n in (0, 2, 3):
        def mk(n=n):
            mod, c = base(n)
            return ('market with %d suppliers, Model.main()' % n, lambda: mod.main(), LogicError)
        out.append(mk)
        def mk2(n=n):
            mod, c = base(n)
            lab = c['LAB']
            return ('market with %d suppliers, Market._GenerateEquations()' % n, lambda: lab._GenerateEquations(), LogicError)
        out.append(mk2)
    def dup_country():
        mod = Model(); Country(mod, 'CA')
        return ('second country with the same code', lambda: Country(mod, 'CA'), LogicError)
    out.append(dup_country)
    def dup_sector():
        mod = Model(); c = Country(mod, 'CA'); Sector(c, 'X')
        return ('second sector with the same code', lambda: Sector(c, 'X'), LogicError)
    out.append(dup_sector)
    def bad_name():
        mod = Model(); c = Country(mod, 'CA'); s = Sector(c, 'X')
        return ('variable name with a double underscore', lambda: s.AddVariable('A__B', '', '1.0'), ValueError)
    out.append(bad_name)
    def cross_flow():
        mod = Model(); a = Country(mod, 'CA', currency='CAD'); b = Country(mod, 'US', currency='USD')
        s1 = Sector(a, 'X'); s2 = Sector(b, 'Y'); s1.AddVariable('GIFT', '', '1.0')
        mod.RegisterCashFlow(s1, s2, 'GIFT')
        mod.MaxTime = 2
        return ('cross-currency flow without an external sector', lambda: mod.main(), LogicError)
    out.append(cross_flow)
    return out


def rejections(tier, seed, **opts):
    r = Result('catalogue of invalid model-level requests (market with 0 / 2 / 3 candidate suppliers through Model.main() and through Market._GenerateEquations(), duplicate '
               'country / sector code, variable name with a double underscore, cross-currency flow without an external sector), each made 3 times on the same objects: '
               'every attempt must raise the documented error')
    for mk in cases():
        label, action, want = mk()
        bad = attempt(label, action, want, 3)
        r.case(label, True)
        if bad:
            r.fail(label, {'case': label}, bad)
    # control: the unambiguous model solves
    mod, c = base(1)
    try:
        mod.main()
        r.case('control', True)
    except Exception as ex:
        r.fail('control', {'case': 'control'}, 'the well-formed control model raised %s: %s' % (type(ex).__name__, ex))
    return r


FUNCS = {'rejections': rejections}


def replay(payload):
    r = rejections('quick', 0)
    if r.failures:
        return {'reproduced': True, 'detail': r.failures[0]['detail'], 'input': r.failures[0]['input']}
    return {'reproduced': False, 'detail': 'every invalid request of the catalogue is rejected every time'}


if __name__ == '__main__':
    main(FUNCS, replay)
