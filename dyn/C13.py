"""
C13 bounded stand-in (T-TOK / T-EVAL audit) and replay vehicle: token-level and value-level checks of the real
list_tokens / replace_token / replace_token_from_lookup on generated expressions and renaming maps.
"""
import io, itertools, math, random, sys, os, tokenize
sys.path.insert(0, os.path.dirname(os.path.abspath(__file__)))
from common import *   # noqa
from sfc_models.utils import list_tokens, replace_token, replace_token_from_lookup
from sfc_models.equation import Term, Equation, EquationBlock

NAMES = ['x', 'xx', 'x1', 'y', 'LAG_x', 'a__b', 'k', 'max', 'e']
ATOMS = NAMES + ['2', '1.5', '1e3', '.5', '0x10', '3j.real', "'x'", '"y x"']


def toks(s):
    return [(t.type, t.string) for t in tokenize.tokenize(io.BytesIO(s.encode('utf-8')).readline)]


def gen_expr(rnd, depth=0):
    c = rnd.random()
    if depth > 2 or c < 0.35:
        return rnd.choice(ATOMS)
    if c < 0.6:
        return '%s %s %s' % (gen_expr(rnd, depth + 1), rnd.choice(['+', '-', '*', '/', '**', '<', '==']), gen_expr(rnd, depth + 1))
    if c < 0.7:
        return '(%s)' % gen_expr(rnd, depth + 1)
    if c < 0.8:
        return 'max(%s, %s)' % (gen_expr(rnd, depth + 1), gen_expr(rnd, depth + 1))
    if c < 0.9:
        return '%s(k-1)' % rnd.choice(['x', 'y', 'xx'])
    return '[%s, %s][0]' % (gen_expr(rnd, depth + 1), gen_expr(rnd, depth + 1))


def expected_tokens(s, lookup):
    out = []
    for (ty, st) in toks(s):
        if ty == tokenize.NAME and st in lookup:
            out.append((tokenize.NAME, lookup[st]))
        else:
            out.append((ty, st))
    return out


def check_one(s, lookup):
    try:
        orig = toks(s)
    except (tokenize.TokenError, SyntaxError, IndentationError):
        return None, False
    # list_tokens
    names = [st for (ty, st) in orig if ty == tokenize.NAME]
    got = list_tokens(s)
    if got != names:
        return 'list_tokens(%r) = %r, expected %r' % (s, got, names), True
    out = replace_token_from_lookup(s, lookup)
    want = expected_tokens(s, lookup)
    try:
        back = toks(out)
    except Exception as ex:
        return 'renamed text %r does not tokenize (%r)' % (out, ex), True
    strip = lambda seq: [(a, b) for (a, b) in seq if a not in (tokenize.ENCODING, tokenize.NEWLINE, tokenize.NL, tokenize.ENDMARKER, tokenize.INDENT, tokenize.DEDENT)]
    if strip(back) != strip(want):
        return 'replace_token_from_lookup(%r, %r) = %r: tokens %r, expected %r' % (s, lookup, out, strip(back), strip(want)), True
    if len(lookup) == 1:
        (a, b), = lookup.items()
        o1 = replace_token(s, a, b)
        if strip(toks(o1)) != strip(want):
            return 'replace_token(%r, %r, %r) = %r' % (s, a, b, o1), True
    # T-EVAL: when the map does not merge two names of the expression, value under the renamed environment is the same
    used = set(names)
    image = [lookup.get(n, n) for n in used]
    if len(set(image)) == len(image):
        env = {}
        for i, n in enumerate(sorted(used)):
            env[n] = (lambda v: (lambda *a: v))(float(i + 2)) if False else float(i + 2)
        env['max'] = max
        f = lambda kk: 7.0
        for n in ('x', 'y', 'xx'):
            pass
        env2 = dict((lookup.get(n, n), v) for n, v in env.items())
        try:
            v1 = eval(s, {'__builtins__': {}}, dict(env))
        except Exception:
            return None, True
        try:
            v2 = eval(out, {'__builtins__': {}}, dict(env2))
        except Exception as ex:
            return 'renamed expression %r fails to evaluate (%r) while %r evaluates' % (out, ex, s), True
        if not (v1 == v2 or (isinstance(v1, float) and isinstance(v2, float) and math.isnan(v1) and math.isnan(v2))):
            return 'T-EVAL: %r -> %r under %r: %r != %r' % (s, out, lookup, v1, v2), True
    return None, True


def maps(rnd):
    base = [{'x': 'y'}, {'x': 'y', 'y': 'x'}, {'x': 'xx', 'xx': 'x1'}, {'x': 'HH__x', 'y': 'HH__y', 'LAG_x': 'HH__LAG_x'},
            {'xx': 'q'}, {'k': 'kk'}, {'max': 'max'}, {'e': 'e2', 'x1': 'x'}, {}]
    return base


def rename(tier, seed, **opts):
    r = Result('random expressions (arithmetic, calls, lag notation, list literals, power, comparisons, all number literal forms, string '
               'literals) x 9 renaming maps incl. overlapping / chained / swapping; 600 (quick) / 15000 (thorough) expressions; '
               'non-trivial = some NAME token is renamed; distinct = distinct (expression, map)')
    rnd = random.Random(seed)
    n = 600 if tier == 'quick' else 15000
    fixed = ['m_x =(x - x_1)', 'x+xx*x1', 'x(k-1) + LAG_x', "y + 'x'", '2*x**x', 'x<y', '[x, y][0]', '1e3*x + 0x10', 'xx']
    for i in range(n):
        s = fixed[i] if i < len(fixed) else gen_expr(rnd)
        for lk in maps(rnd):
            try:
                bad, ok = check_one(s, lk)
            except Exception as ex:      # the functions themselves must not fail on tokenizable input
                bad, ok = 'exception %r on %r with %r' % (ex, s, lk), True
            if not ok:
                r.skipped += 1
                continue
            try:
                hit = any(t in lk for t in list_tokens(s))
            except Exception:
                hit = False
            r.case((s, tuple(sorted(lk.items()))), hit, sample={'expr': s, 'map': lk} if i < 3 and lk else None)
            if bad:
                r.fail('rename', {'expr': s, 'map': lk}, bad)
                return r
    # wrappers: every term of every equation renamed with the same lookup
    blk = EquationBlock()
    e1 = Equation('v', '', [Term('x*2+y', is_blob=True)]); e1.AddTerm('x'); e1.AddTerm('-y')
    e2 = Equation('w', '', [Term('xx', is_blob=True)]); e2.AddTerm('x*y')
    blk.AddEquation(e1); blk.AddEquation(e2)
    blk.ReplaceTokensFromLookup({'x': 'y', 'y': 'x'})
    got = [[t.Term.replace(' ', '') for t in e.TermList] for e in (e1, e2)]
    want = [['y*2+x', 'y', 'x'], ['xx', 'y*x']]
    r.case(('wrappers',), True)
    if got != want:
        r.fail('wrappers', {'got': got, 'want': want}, 'block rename (swap) gave %r, expected %r' % (got, want))
    return r


FUNCS = {'rename': rename}


def replay(payload):
    if payload.get('kind') == 'bounded-failure':
        inp = payload['native']['input']
        if 'expr' in inp:
            bad, ok = check_one(inp['expr'], inp['map'])
            return {'reproduced': bool(bad), 'detail': bad, 'input': inp}
    r = rename('quick', 0)
    if r.failures:
        return {'reproduced': True, 'detail': r.failures[0]['detail'], 'input': r.failures[0]['input'],
                'note': 'failing input found by the bounded search of the same contract'}
    return {'reproduced': False, 'detail': 'no natively failing expression / map in the bounded search'}


if __name__ == '__main__':
    main(FUNCS, replay)
