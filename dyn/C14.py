"""C14 bounded stand-in and replay: equation text is classified faithfully; comments are inert.

Blocks are generated from a STRUCTURE (the oracle): simultaneous / lagged / initial-condition / exogenous / parameter items, rendered with
random spacing, lag spellings and comment texts, in random order (exogenous items after the section marker)."""
import random, sys, os
sys.path.insert(0, os.path.dirname(os.path.abspath(__file__)))
from common import *   # noqa
from sfc_models.equation_parser import EquationParser
from sfc_models.equation_solver import EquationSolver

COMMENTS = ['', '', ' # plain text', ' # a = b + 1', '  # exogenous demand', ' # 50% of x(k-1) = 3', ' ## double', ' # MaxTime = 99', ' #', ' # Exogenous',
            ' # t = 5', ' # y(0) = 7']
NAMES = ['x', 'y', 'z', 'w', 'alpha', 'LAG_y', 'v1', 'gdp']


def sp(rnd):
    return rnd.choice(['', ' ', '  '])


def render(item, rnd):
    kind = item[0]
    c = rnd.choice(COMMENTS) if item[-1] is None else item[-1]
    if kind == 'sim':
        _, name, rhs, _c = item
        txt = rhs if rnd.random() < 0.5 else rhs.replace('+', ' + ').replace('*', ' * ')
        return '%s%s%s=%s%s%s' % (sp(rnd), name, sp(rnd), sp(rnd), txt, c)
    if kind == 'lag':
        _, name, src, _c = item
        lag = rnd.choice(['(k-1)', '(t-1)', ' (k -1 )'])
        return '%s%s%s=%s%s%s%s' % (sp(rnd), name, sp(rnd), sp(rnd), src, lag, c)
    if kind == 'ic':
        _, name, val, _c = item
        return '%s(0)%s=%s%s%s' % (name, sp(rnd), sp(rnd), val, c)
    if kind == 'exo':
        _, name, val, _c = item
        return '%s%s=%s%s%s' % (name, sp(rnd), sp(rnd), val, c)
    if kind == 'param':
        _, name, val, _c = item
        return '%s%s=%s%s%s' % (name, sp(rnd), sp(rnd), val, c)
    if kind == 'blank':
        return rnd.choice(['', '   ', '# only a comment', '   # x = 5'])
    if kind == 'junk':
        return item[1]
    raise ValueError(kind)


def make_structure(rnd):
    names = rnd.sample(NAMES, rnd.randint(3, 6))
    exo = names.pop()
    lagsrc = names[0]
    lagname = 'LAG_' + lagsrc.replace('LAG_', 'L')
    items = []
    for i, n in enumerate(names):
        others = [m for m in names if m != n]
        rhs = '0.%d*%s+%d' % (rnd.randint(1, 4), rnd.choice(others), rnd.randint(1, 9)) if i % 2 == 0 else '0.%d*%s+0.1*%s+%s' % (rnd.randint(1, 3), lagname, rnd.choice(others), exo)
        items.append(('sim', n, rhs, None))
    items.append(('lag', lagname, lagsrc, None))
    if rnd.random() < 0.6:
        items.append(('ic', rnd.choice(names), '%d.5' % rnd.randint(0, 9), None))
    user_t = rnd.random() < 0.2
    if user_t:
        items.append(('sim', 't', 'k+10', None))
    params = [('param', 'MaxTime', str(rnd.randint(1, 4)), None)]
    if rnd.random() < 0.5:
        params.append(('param', 'Err_Tolerance', rnd.choice(['1e-6', '0.0001']), None))
    for _ in range(rnd.randint(0, 2)):
        items.append(('blank', None))
    junk = []
    if rnd.random() < 0.3:
        junk.append(('junk', rnd.choice(['this line has no equals sign', 'a = b = c'])))
    rnd.shuffle(items)
    exos = [('exo', exo, '[%s]' % ', '.join('%d.' % rnd.randint(1, 20) for _ in range(8)), None)]
    marker = rnd.choice(['exogenous', 'Exogenous', '# Exogenous Variables', 'EXOGENOUS:', '   exogenous   # section'])
    # parameters may appear anywhere
    pre, post = [], []
    for p in params + junk:
        (pre if rnd.random() < 0.5 else post).append(p)
    head = items + pre
    rnd.shuffle(head)
    tail = exos + post
    rnd.shuffle(tail)
    return dict(head=head, marker=marker, tail=tail, user_t=user_t)


def squeeze(s):
    return s.replace(' ', '')


def check_structure(struct, seed):
    rnd = random.Random(seed)
    lines = [render(i, rnd) for i in struct['head']] + [struct['marker']] + [render(i, rnd) for i in struct['tail']]
    text = '\n'.join(lines)
    p = EquationParser()
    msg = p.ParseString(text)
    want_sim = [(i[1], squeeze(i[2])) for i in struct['head'] if i[0] == 'sim']
    want_lag = [(i[1], i[2]) for i in struct['head'] if i[0] == 'lag']
    want_ic = dict((i[1], i[2]) for i in struct['head'] if i[0] == 'ic')
    want_exo = [(i[1], squeeze(i[2])) for i in struct['tail'] if i[0] == 'exo']
    params = dict((i[1], i[2]) for i in struct['head'] + struct['tail'] if i[0] == 'param')
    got_sim = [(n, squeeze(r)) for n, r in p.Endogenous]
    if not struct['user_t']:
        want_sim = want_sim + [('t', 'k')]
    if got_sim != want_sim:
        return 'simultaneous equations %r, block states %r\n%s' % (got_sim, want_sim, text)
    if [(n, squeeze(s)) for n, s in p.Lagged] != want_lag:
        return 'lagged %r, block states %r\n%s' % (p.Lagged, want_lag, text)
    if dict((k, squeeze(v)) for k, v in p.InitialConditions.items()) != want_ic:
        return 'initial conditions %r, block states %r\n%s' % (p.InitialConditions, want_ic, text)
    if [(n, squeeze(r)) for n, r in p.Exogenous] != want_exo:
        return 'exogenous %r, block states %r\n%s' % (p.Exogenous, want_exo, text)
    if p.MaxTime != int(params['MaxTime']):
        return 'MaxTime %r, block states %r\n%s' % (p.MaxTime, params['MaxTime'], text)
    if 'Err_Tolerance' in params and p.Err_Tolerance != params['Err_Tolerance']:
        return 'Err_Tolerance %r, block states %r\n%s' % (p.Err_Tolerance, params['Err_Tolerance'], text)
    for j in [i for i in struct['head'] + struct['tail'] if i[0] == 'junk']:
        if j[1].split('=')[0].strip() not in msg and j[1] not in msg:
            return 'malformed line %r was not reported (message %r)\n%s' % (j[1], msg, text)
    # comments are inert end to end: same series with every comment removed
    bare = '\n'.join(l.split('#')[0] if not l.strip().startswith('#') else l for l in lines)
    try:
        a = EquationSolver(text); a.SolveEquation()
        b = EquationSolver(bare); b.SolveEquation()
    except Exception as ex:
        try:
            b = EquationSolver(bare); b.SolveEquation()
        except Exception:
            return None       # the system itself is not solvable: nothing to compare
        return 'the block with comments raised %s: %s, without comments it solves\n%s' % (type(ex).__name__, ex, text)
    sa = dict((k, list(v)) for k, v in a.TimeSeries.items())
    sb = dict((k, list(v)) for k, v in b.TimeSeries.items())
    if sa != sb:
        return 'series differ with / without comments: %r\n%s' % (sorted(k for k in set(sa) | set(sb) if sa.get(k) != sb.get(k))[:4], text)
    return None


def blocks(tier, seed, **opts):
    r = Result('random equation blocks rendered from a structure (2-5 simultaneous equations with products / sums, one lag in the spellings X(k-1), X(t-1) and the '
               "model's tokenizer-spaced form, optional initial condition, user time axis, MaxTime / Err_Tolerance anywhere, blank and comment-only lines, "
               "malformed lines, 5 spellings of the section marker, 12 comment texts incl. '=', '#', digits, 'exogenous', 'MaxTime = 99'), random spacing "
               'and order: 400 (quick) / 10000 (thorough); classification compared with the structure, series compared with / without comments')
    rnd = random.Random(seed)
    for i in range(400 if tier == 'quick' else 10000):
        st = make_structure(rnd)
        s2 = rnd.randint(0, 10 ** 9)
        try:
            bad = check_structure(st, s2)
        except Exception as ex:
            import traceback
            bad = 'raised %s: %s' % (type(ex).__name__, traceback.format_exc()[-400:])
        r.case((len(st['head']), st['marker'], st['user_t']), True, sample=None)
        if bad:
            r.fail('blocks', {'structure': st, 'render_seed': s2}, bad)
            break
    return r


DESCRIPTIONS = ['plain', 'a = b + 1', 'exogenous demand for goods', '# hash inside', 'MaxTime = 99', 'x(0) = 7 and t = 3',
                'An unusually long description that goes on well past seventy-two characters and mentions the exogenous government demand = 20',
                'Another long free text without the marker word that is also well past the seventy-two character mark, with = and # in it',
                'Exogenous', 'ends with a hash #']


def build_described_model(descs):
    from sfc_models.models import Model, Country
    from sfc_models.sector import Sector
    mod = Model()
    c = Country(mod, 'CA', long_name=descs[0])
    s = Sector(c, 'AA', long_name=descs[1], has_F=False)
    s.AddVariable('x', descs[2], '0.5*y + LAGZ + 1')
    s.AddVariable('y', descs[3], '0.25*x + g')
    s.AddVariable('g', descs[4], '0.0')
    s.AddVariable('z', descs[5], 'x + y')
    s.AddVariable('LAGZ', descs[6], 'z(k-1)')
    s.AddInitialCondition('z', 2.0)
    s.SetExogenous('g', '[2., 3., 4., 5., 6., 7.]')
    mod.AddGlobalEquation('tot', descs[7], 'AA__x + AA__y')
    mod.MaxTime = 3
    mod.main()
    p = mod.EquationSolver.Parser
    cls = (sorted(n for n, _ in p.Endogenous), sorted(n for n, _ in p.Lagged), sorted(n for n, _ in p.Exogenous), sorted(n for n, _ in p.Decoration),
           sorted(p.InitialConditions), p.MaxTime)
    return cls, dict((k, list(v)) for k, v in mod.EquationSolver.TimeSeries.items())


def descriptions(tier, seed, **opts):
    r = Result("a model built through the public API whose country / sector long names and variable / global-equation descriptions are drawn from 10 free texts "
               "(containing '=', '#', digits, 'MaxTime = 99', the word exogenous, and two texts longer than 72 characters): classification by the parser and "
               'solved series must equal those of the same model with bland descriptions: 40 (quick) / 1000 (thorough) draws')
    rnd = random.Random(seed)
    try:
        ref = build_described_model(['plain'] * 8)
    except Exception as ex:
        r.fail('descriptions', {'descs': ['plain'] * 8}, 'reference model raised %s: %s' % (type(ex).__name__, ex))
        return r
    for i in range(40 if tier == 'quick' else 1000):
        descs = [rnd.choice(DESCRIPTIONS) for _ in range(8)] if i >= len(DESCRIPTIONS) else [DESCRIPTIONS[i]] * 8
        try:
            got = build_described_model(descs)
            bad = None
            if got[0] != ref[0]:
                bad = 'classification %r, with bland descriptions %r' % (got[0], ref[0])
            elif got[1] != ref[1]:
                bad = 'series differ: %r' % sorted(k for k in ref[1] if got[1].get(k) != ref[1][k])[:4]
        except Exception as ex:
            bad = 'raised %s: %s' % (type(ex).__name__, str(ex)[:200])
        r.case(tuple(descs), True)
        if bad:
            r.fail('descriptions', {'descs': descs}, 'descriptions %r: %s' % (descs, bad))
            break
    return r


FUNCS = {'blocks': blocks, 'descriptions': descriptions}


def replay(payload):
    if payload.get('kind') == 'bounded-failure' and 'descs' in payload['native']['input']:
        inp = payload['native']['input']
        ref = build_described_model(['plain'] * 8)
        try:
            got = build_described_model(inp['descs'])
            bad = None if got == ref else 'classification / series differ from the bland model'
        except Exception as ex:
            bad = 'raised %s: %s' % (type(ex).__name__, ex)
        return {'reproduced': bool(bad), 'detail': bad, 'input': inp}
    if payload.get('kind') == 'bounded-failure':
        inp = payload['native']['input']
        st = inp['structure']
        for k in ('head', 'tail'):
            st[k] = [tuple(x) for x in st[k]]
        bad = check_structure(st, inp['render_seed'])
        return {'reproduced': bool(bad), 'detail': bad, 'input': inp}
    r = blocks('quick', 0)
    if r.failures:
        return {'reproduced': True, 'detail': r.failures[0]['detail'], 'input': r.failures[0]['input'], 'note': 'found by the bounded search'}
    return {'reproduced': False, 'detail': 'no generated block is mis-classified'}


if __name__ == '__main__':
    main(FUNCS, replay)
