"""
C15 bounded stand-in / replay vehicle: the steady-state search on a catalogue of systems (real solver).
Checks natively the contract clauses of CalculateInitialSteadyState and the statement's "one more
period" clause (which the deductive part does not decide).
"""
import copy, itertools, math, random, sys, os
sys.path.insert(0, os.path.dirname(os.path.abspath(__file__)))
from common import *   # noqa
from sfc_models.equation_solver import EquationSolver, NoEquilibriumError


def steady(last, prev, tol):
    d = abs(last - prev)
    return d <= tol or (abs(last) < 1e-4 and abs(prev) < 1e-4) or d <= tol * abs(last)


def catalogue(rnd, n_random):
    """(name, equations, initial conditions) - positive, negative, sign changing; stable, drifting, unstable, oscillating"""
    out = []
    for a in (0.5, 0.9, -0.5):
        for c in (10.0, -10.0, 0.0):
            out.append(('stable a=%s c=%s' % (a, c), 'x = %s*LAGX + %s\nLAGX = x(k-1)\ny = 2*x\n' % (a, c), {'x': 1.0}))
    for d in (1.0, -1.0, 0.001, -0.001, 1e-6, -1e-6):
        for x0 in (0.0, 50.0, -50.0):
            out.append(('drift d=%s x0=%s' % (d, x0), 'x = LAGX + %s\nLAGX = x(k-1)\n' % d, {'x': x0}))
    for g in (1.001, 1.01, 0.999):
        for x0 in (1.0, -1.0):
            out.append(('growth g=%s x0=%s' % (g, x0), 'x = %s*LAGX\nLAGX = x(k-1)\n' % g, {'x': x0}))
    for a in (1e-3, -1e-3):
        for x0 in (1000.0, -1000.0, 10.0):
            out.append(('fast decay through the near-zero band a=%s x0=%s' % (a, x0), 'x = %s*LAGX\nLAGX = x(k-1)\n' % a, {'x': x0}))
    for x0 in (1.0, -3.0):
        out.append(('oscillate x0=%s' % x0, 'x = -1.0*LAGX\nLAGX = x(k-1)\n', {'x': x0}))
    # names that look like lags / prefixes of excluded names, small sign-changing cycles, loose tolerances
    for nm in ('G_t', 'A_t', 'L_k', 'LAG_x', '_t'):
        out.append(('trend named %s' % nm, '%s = LL%s + 1\nLL%s = %s(k-1)\n' % (nm, nm, nm, nm), {nm: 0.0}))
        out.append(('decay named %s' % nm, '%s = 0.5*LL%s + 1\nLL%s = %s(k-1)\n' % (nm, nm, nm, nm), {nm: -7.0}))
    for amp in (0.008, 0.0008, 0.00009, 0.04):
        out.append(('small cycle %s' % amp, 'x = -1.0*LAGX\nLAGX = x(k-1)\n', {'x': amp}))
        out.append(('small asymmetric cycle %s' % amp, 'x = -1.0*LAGX + %r\nLAGX = x(k-1)\n' % (amp / 2,), {'x': amp}))
    out.append(('exo', 'x = 0.5*LAGX + g\nLAGX = x(k-1)\nexogenous\ng = [20.]*5 + [30.]*300\n', {'x': 0.0}))
    out.append(('exo-neg', 'x = 0.5*LAGX + g\nLAGX = x(k-1)\nexogenous\ng = [-20.]*5 + [30.]*300\n', {'x': 0.0}))
    for i in range(n_random):
        a = rnd.uniform(-1.05, 1.05)
        c = rnd.uniform(-100, 100)
        d = rnd.choice([0.0, rnd.uniform(-1, 1)])
        x0 = rnd.uniform(-100, 100)
        out.append(('random %d' % i, 'x = %r*LAGX + %r + z\nz = %r*LAGZ + %r\nLAGX = x(k-1)\nLAGZ = z(k-1)\n' % (a, c, 1.0 if d else 0.3, d),
                    {'x': x0, 'z': rnd.uniform(-5, 5)}))
    return out


def run_case(name, eqs, ics, T, tol, presolved=False):
    """returns (accepted: bool, problem or None)"""
    txt = eqs + ''.join('%s(0) = %r\n' % kv for kv in ics.items()) + 'MaxTime = 3\n'
    s = EquationSolver(txt)
    s.ExtractVariableList()
    s.SetInitialConditions()
    if presolved:          # the search applied to a solver that already holds solved periods
        try:
            for step in range(1, 4):
                s.SolveStep(step)
        except ValueError:
            return False, None
    s.ParameterInitialSteadyStateMaxTime = T
    s.ParameterInitialSteadyStateErrorToler = tol
    before_parser = copy.deepcopy((s.Parser.Endogenous, s.Parser.Lagged, s.Parser.Exogenous, s.Parser.Decoration, s.Parser.MaxTime, s.EquationString))
    before_tail = dict((k, list(v[1:])) for k, v in s.TimeSeries.items())
    try:
        new = s.CalculateInitialSteadyState()
    except ValueError:          # NoEquilibriumError / 'No convergence' are ValueErrors
        after_parser = (s.Parser.Endogenous, s.Parser.Lagged, s.Parser.Exogenous, s.Parser.Decoration, s.Parser.MaxTime, s.EquationString)
        if after_parser != before_parser:
            return False, 'equations_paths_horizon_untouched: parser state changed by a failing search'
        return False, None
    except Exception as ex:     # noqa
        return False, 'search raised %r (only no-equilibrium / value errors are allowed)' % (ex,)
    after_parser = (s.Parser.Endogenous, s.Parser.Lagged, s.Parser.Exogenous, s.Parser.Decoration, s.Parser.MaxTime, s.EquationString)
    if after_parser != before_parser:
        return True, 'equations_paths_horizon_untouched: parser state changed'
    if dict((k, list(v[1:])) for k, v in s.TimeSeries.items()) != before_tail:
        return True, 'points_after_k0_untouched: stored points k>=1 changed'
    excluded = ['k'] + list(s.ParameterInitialSteadyStateExcludedVariables)
    for var in s.TimeSeries:
        if var in excluded:
            continue
        ts = new.TimeSeries[var]
        if not steady(ts[-1], ts[-2], tol):
            return True, 'every_included_series_is_steady: %s accepted with last two search values %r, %r (tol %g)' % (var, ts[-2], ts[-1], tol)
        if s.TimeSeries[var][0] != ts[-1]:
            return True, 'every_included_series_is_steady: %s(0)=%r but the search ended at %r' % (var, s.TimeSeries[var][0], ts[-1])
    # statement clause "one more period": frozen exogenous, from the installed k=0 values
    try:
        s2 = copy.deepcopy(s)
        for var, dummy in s2.Parser.Exogenous:
            s2.TimeSeries[var] = [s2.TimeSeries[var][0]] * (len(s2.TimeSeries[var]))
        s2.SolveStep(1)
        for var in s.TimeSeries:
            if var in excluded:
                continue
            a, b = s2.TimeSeries[var][1], s2.TimeSeries[var][0]
            if not (steady(a, b, tol * 1.5 + 1e-9)):
                return True, 'one more period moves %s from %r to %r (tol %g)' % (var, b, a, tol)
    except ValueError:
        pass
    return True, None


def search(tier, seed, **opts):
    r = Result('catalogue of linear systems (stable / drifting / growing / oscillating; positive, negative, zero and sign-changing '
               'values; with and without exogenous steps) x search horizons {3, 50, 200} x tolerances {1e-4, 1e-2}; non-trivial = the '
               'search accepted the state (so the acceptance clauses were exercised); distinct = (system, horizon, tolerance)')
    rnd = random.Random(seed)
    cat = catalogue(rnd, 20 if tier == 'quick' else 400)
    for (name, eqs, ics) in cat:
        for T in (3, 50, 200):
            for tol in (1e-4, 1e-2, 1e-3):
                for pre in (False,):   # a presolved solver violates SolveStep's own precondition (series length == step)
                    acc, bad = run_case(name, eqs, ics, T, tol, pre)
                    r.case((name, T, tol, pre), acc, sample={'system': eqs, 'initial': ics, 'T': T, 'tol': tol, 'presolved': pre, 'accepted': acc})
                    if bad:
                        r.fail('steady-state', {'system': eqs, 'initial': ics, 'T': T, 'tol': tol, 'presolved': pre}, bad)
                        return r
    return r


FUNCS = {'search': search}


def replay(payload):
    if payload.get('kind') == 'bounded-failure':
        inp = payload['native']['input']
        acc, bad = run_case('replay', inp['system'], inp['initial'], inp['T'], inp['tol'], inp.get('presolved', False))
        return {'reproduced': bool(bad), 'detail': bad, 'input': inp}
    w = dict((k, parse_model_value(v)) for k, v in (payload.get('watch') or {}).items())
    # recipe for an accepted (prev, last) pair of the counter-model: x = LAGX + d, d = last - prev, x(0) = last - T*d
    last, prev = w.get('lastval'), w.get('prev')
    tried = []
    if isinstance(last, (int, float)) and isinstance(prev, (int, float)):
        d = last - prev
        T = 50
        inp = {'system': 'x = LAGX + %r\nLAGX = x(k-1)\n' % d, 'initial': {'x': last - T * d}, 'T': T, 'tol': 1e-4}
        tried.append(inp)
        acc, bad = run_case('replay', inp['system'], inp['initial'], T, 1e-4)
        if bad:
            return {'reproduced': True, 'detail': bad, 'input': inp}
    r = search('quick', 0)
    if r.failures:
        return {'reproduced': True, 'detail': r.failures[0]['detail'], 'input': r.failures[0]['input'],
                'note': 'failing input found by the bounded search of the same contract'}
    return {'reproduced': False, 'detail': 'no natively failing system in the catalogue', 'input': tried}


if __name__ == '__main__':
    main(FUNCS, replay)
