"""
C16 bounded stand-in and replay vehicle: sequences of retrieval / rendering calls on the real objects.
"""
import copy
import itertools
import random
import sys
import os
sys.path.insert(0, os.path.dirname(os.path.abspath(__file__)))
from common import *   # noqa

from sfc_models.models import Model
from sfc_models.utils import TimeSeriesHolder
from sfc_models.base_solver import BaseSolver


def mk_model(series, step=None, initial=None, cutoff=None, suppress=False):
    m = Model()
    for k, v in series.items():
        m.EquationSolver.TimeSeries[k] = list(v)
    for k, v in (step or {}).items():
        m.EquationSolver.TimeSeriesStepTrace[k] = list(v)
    for k, v in (initial or {}).items():
        m.EquationSolver.TimeSeriesInitialSteadyState[k] = list(v)
    m.TimeSeriesCutoff = cutoff
    m.TimeSeriesSupressTimeZero = suppress
    return m


def snapshot(m):
    es = m.EquationSolver
    return copy.deepcopy((dict(es.TimeSeries), dict(es.TimeSeriesStepTrace), dict(es.TimeSeriesInitialSteadyState)))


def expected(stored, cutoff, default_cutoff, suppress):
    eff = cutoff if cutoff is not None else default_cutoff
    out = list(stored) if eff is None else list(stored)[0:eff + 1]
    if suppress:
        out = out[1:]
    return out


def one_retrieval(m, series, cutoff, group, mutate):
    """returns None if fine, else a description of the contract clause that failed natively"""
    holder = {'main': m.EquationSolver.TimeSeries, 'step': m.EquationSolver.TimeSeriesStepTrace,
              'initial': m.EquationSolver.TimeSeriesInitialSteadyState}.get(group, m.EquationSolver.TimeSeries)
    before = snapshot(m)
    stored_obj = holder.get(series)
    exp = None if stored_obj is None else expected(stored_obj, cutoff, m.TimeSeriesCutoff, m.TimeSeriesSupressTimeZero)
    try:
        got = m.GetTimeSeries(series, cutoff=cutoff, group_of_series=group)
    except KeyError:
        if stored_obj is not None:
            return 'KeyError for an existing series'
        if snapshot(m) != before:
            return 'stored results changed by a failing retrieval'
        return None
    if stored_obj is None:
        return 'no KeyError for a missing series'
    if got != exp:
        return 'result_values/result_length: got %r expected %r' % (got, exp)
    if snapshot(m) != before:
        return 'stored_lists_unchanged: stored results changed by the retrieval'
    if got is stored_obj:
        return 'result_fresh: the stored list object itself was returned'
    if mutate:
        got.append(12345.0)
        if got:
            got[0] = -1.0
        if snapshot(m) != before:
            return 'result_fresh: caller-side mutation of the returned list reached the store'
    return None


def bounded_get_time_series(tier, seed, **opts):
    r = Result('all sequences of <=L retrievals over 2 series x groups{main,step,initial} x cutoff{None,0,1,5} x '
               'default cutoff{None,2} x suppress{F,T} x mutate{F,T}; stored series lengths 1..4; a case is non-trivial '
               'when at least one retrieval hits an existing series; distinct = distinct (config, call sequence)')
    L = 2 if tier == 'quick' else 3
    series = {'x': [1.0, 2.0, 3.0, 4.0], 'y': [5.0]}
    calls = [(s, c, g, mu) for s in ('x', 'y', 'zz') for c in (None, 0, 1, 5) for g in ('main', 'step', 'initial') for mu in (False, True)]
    rnd = random.Random(seed)
    seqs = list(itertools.product(range(len(calls)), repeat=L))
    if len(seqs) > (3000 if tier == 'quick' else 40000):
        seqs = rnd.sample(seqs, 3000 if tier == 'quick' else 40000)
    else:
        r.exhaustive = True
    for default_cutoff in (None, 2):
        for suppress in (False, True):
            for seq in seqs:
                m = mk_model(series, step={'x': [9.0, 8.0]}, initial={'y': [7.0, 6.0, 5.0]}, cutoff=default_cutoff, suppress=suppress)
                desc = [calls[i] for i in seq]
                nontrivial = any(c[0] != 'zz' for c in desc)
                bad = None
                for (s, c, g, mu) in desc:
                    bad = one_retrieval(m, s, c, g, mu)
                    if bad:
                        break
                key = (default_cutoff, suppress, seq)
                r.case(key, nontrivial, sample={'default_cutoff': default_cutoff, 'suppress': suppress, 'calls': desc})
                if bad:
                    r.fail('GetTimeSeries', {'default_cutoff': default_cutoff, 'suppress': suppress, 'calls': desc}, bad)
                    if len(r.failures) >= 5:
                        return r
    return r


class _Solver(BaseSolver):
    pass


def bounded_csv(tier, seed, **opts):
    r = Result('BaseSolver.CreateCsvString and TimeSeriesHolder.GenerateCSVtext called 3 times on the same stored '
               'series: texts must be identical and the stored lists / variable list unchanged; variable lists of '
               '1..4 names with and without t in every position; non-trivial = more than one variable')
    names = ['a', 'b', 'c']
    for n in range(1, 4):
        for tpos in [None] + list(range(0, n + 1)):
            vl = names[:n]
            if tpos is not None:
                vl = vl[:tpos] + ['t'] + vl[tpos:]
            s = _Solver(list(vl))
            for i, v in enumerate(vl):
                setattr(s, v, [float(i), float(i) + 0.5, 3.25])
            before = list(s.VariableList)
            texts = [s.CreateCsvString() for _ in range(3)]
            r.case(('csv', tuple(vl)), len(vl) > 1, sample={'VariableList': vl, 'first_text': texts[0]})
            if s.VariableList != before:
                r.fail('CreateCsvString', {'VariableList': vl}, 'variable_list_unchanged: VariableList became %r' % (s.VariableList,))
            elif len(set(texts)) != 1:
                r.fail('CreateCsvString', {'VariableList': vl}, 'rendering is not repeatable: %r' % (texts,))
            h = TimeSeriesHolder('k')
            for i, v in enumerate(vl):
                h[v] = [float(i), 2.5]
            snap = copy.deepcopy(dict(h))
            t3 = [h.GenerateCSVtext() for _ in range(3)]
            r.case(('holder', tuple(vl)), len(vl) > 1)
            if dict(h) != snap or len(set(t3)) != 1:
                r.fail('GenerateCSVtext', {'names': vl}, 'holder rendering changed the store or is not repeatable')
    r.exhaustive = True
    return r


FUNCS = {'GetTimeSeries': bounded_get_time_series, 'csv': bounded_csv}


def replay(payload):
    """reproduce a refuted obligation natively: build the configuration the counter-model describes"""
    if payload.get('kind') == 'bounded-failure':
        nat = payload['native']
        inp = nat['input']
        if nat['case_id'] == 'GetTimeSeries':
            m = mk_model({'x': [1.0, 2.0, 3.0, 4.0], 'y': [5.0]}, step={'x': [9.0, 8.0]}, initial={'y': [7.0, 6.0, 5.0]},
                         cutoff=inp['default_cutoff'], suppress=inp['suppress'])
            for (s, c, g, mu) in inp['calls']:
                bad = one_retrieval(m, s, c, g, mu)
                if bad:
                    return {'reproduced': True, 'detail': bad, 'input': inp}
            return {'reproduced': False, 'detail': 'sequence passes now', 'input': inp}
        r = bounded_csv('quick', 0)
        return {'reproduced': bool(r.failures), 'detail': r.failures[:1], 'input': inp}
    ob = payload.get('obligation', '')
    w = dict((k, parse_model_value(v)) for k, v in (payload.get('watch') or {}).items())
    if 'GetTimeSeries' in ob:
        cutoff = w.get('cutoff')
        suppress = bool(w.get('self.TimeSeriesSupressTimeZero'))
        group = w.get('group_of_series')
        if group not in ('step', 'initial'):
            group = 'main'
        n0 = w.get('n0')
        n0 = n0 if isinstance(n0, int) and 1 <= n0 <= 50 else 3
        dc = w.get("get(self.TimeSeriesCutoff) if not is_none(self.TimeSeriesCutoff) else -1")
        dc = None if dc in (None, -1) else dc
        series = [float(i) for i in range(n0)]
        tried = []
        for mutate in (False, True):
            m = mk_model({'s': series}, step={'s': series}, initial={'s': series}, cutoff=dc, suppress=suppress)
            bad = one_retrieval(m, 's', cutoff, group, mutate)
            inp = {'series_len': n0, 'cutoff': cutoff, 'default_cutoff': dc, 'suppress': suppress, 'group': group, 'mutate_result': mutate}
            tried.append(inp)
            if bad:
                return {'reproduced': True, 'detail': bad, 'input': inp}
        # the counter-model's sizes were not constructible as such: search the enumerated neighbourhood
        r = bounded_get_time_series('quick', 0)
        if r.failures:
            return {'reproduced': True, 'detail': r.failures[0]['detail'], 'input': r.failures[0]['input'],
                    'note': 'counter-model input passed natively; failing input found by the bounded search'}
        return {'reproduced': False, 'detail': 'counter-model input passes natively', 'input': tried}
    if 'CreateCsvString' in ob or 'GenerateCSVtext' in ob:
        r = bounded_csv('quick', 0)
        if r.failures:
            return {'reproduced': True, 'detail': r.failures[0]['detail'], 'input': r.failures[0]['input']}
        return {'reproduced': False, 'detail': 'no natively failing variable list among the enumerated ones'}
    return {'reproduced': False, 'detail': 'no replay recipe for ' + ob}


if __name__ == '__main__':
    main(FUNCS, replay)
