"""
C17 bounded stand-in: interleavings of building / solving models and solvers in one process; the series of each
must equal those of a reference run of the same model / block computed in isolation (a fresh sub-process).
"""
import copy, json, os, random, subprocess, sys, tempfile
sys.path.insert(0, os.path.dirname(os.path.abspath(__file__)))
from common import *   # noqa
from sfc_models.equation_solver import EquationSolver
from sfc_models.models import Model, Country
from sfc_models.sector_definitions import Household, ConsolidatedGovernment, TaxFlow, FixedMarginBusiness
from sfc_models.sector import Market
from sfc_models.utils import Logger

BLOCKS = ['x = 0.5*y + 10\ny = 0.25*x + g\nz = x + y\nexogenous\ng = [20.]*3 + [25.]*10\nMaxTime = 6',
          'a = 0.9*LAGA + 1\nLAGA = a(k-1)\nb = a*2\na(0) = 3.\nMaxTime = 5',
          'y = 2\nw = y + 1\nMaxTime = 2']


def build_model(alpha, tax, g, interrupt_at=None, interruption=None):
    """model SIM, built step by step; `interruption()` (work on OTHER models) runs before construction step `interrupt_at`"""
    box = {}
    steps = [lambda: box.__setitem__('mod', Model()),
             lambda: box.__setitem__('can', Country(box['mod'], 'CA', 'Canada')),
             lambda: ConsolidatedGovernment(box['can'], 'GOV', 'Government'),
             lambda: box.__setitem__('hh', Household(box['can'], 'HH', 'Household', alpha_income=alpha, alpha_fin=0.4)),
             lambda: FixedMarginBusiness(box['can'], 'BUS', 'Business', profit_margin=0.0),
             lambda: Market(box['can'], 'LAB', 'Labour'),
             lambda: Market(box['can'], 'GOOD', 'Goods'),
             lambda: TaxFlow(box['can'], 'TF', 'Tax', tax),
             lambda: box['mod'].AddExogenous('GOV', 'DEM_GOOD', '[%r]*40' % g),
             lambda: box['hh'].AddInitialCondition('F', 5.0)]
    for i, st in enumerate(steps):
        if interrupt_at == i and interruption is not None:
            interruption()
        st()
    box['mod'].MaxTime = 8
    return box['mod']


def series_of_block(txt, trace=None, resolve=1):
    s = EquationSolver(txt)
    if trace is not None:
        s.TraceStep = trace
    for _ in range(resolve):
        s.SolveEquation()
    return dict((k, list(v)) for k, v in s.TimeSeries.items())


def series_of_model(params, interrupt_at=None, interruption=None):
    m = build_model(*params, interrupt_at=interrupt_at, interruption=interruption)
    if interrupt_at == 99 and interruption is not None:
        interruption()
    m.main()
    return dict((k, list(v)) for k, v in m.EquationSolver.TimeSeries.items())


def reference():
    """reference results computed first, each in a fresh interpreter (no shared process history)"""
    code = ("import sys, json\nsys.path.insert(0, %r)\nsys.path.insert(0, %r)\nimport warnings; warnings.simplefilter('ignore')\n"
            "import C17\nout = {'blocks': [C17.series_of_block(b) for b in C17.BLOCKS], 'models': [C17.series_of_model(p) for p in C17.PARAMS]}\n"
            "print('@@' + json.dumps(out))\n" % (os.environ.get('PYVC_REPO', '/repo'), os.path.dirname(os.path.abspath(__file__))))
    p = subprocess.run([sys.executable, '-c', code], stdout=subprocess.PIPE, stderr=subprocess.PIPE, universal_newlines=True)
    line = [l for l in p.stdout.split('\n') if l.startswith('@@')]
    if not line:
        raise RuntimeError('reference run failed: ' + p.stderr[-500:])
    return json.loads(line[0][2:])


PARAMS = [(0.6, 0.2, 20.0), (0.7, 0.1, 35.0)]


def history(tier, seed, **opts):
    r = Result('random interleavings (see bound); every produced series compared exactly with the isolated reference; non-trivial = interleaving '
               'with >= 3 actions; distinct = distinct action sequences')
    ref = reference()
    rnd = random.Random(seed)
    tmp = tempfile.mkdtemp(prefix='c17log_')
    n = 40 if tier == 'quick' else 600
    try:
        # systematic part: another model started / built / solved before every construction step of model SIM
        for j in range(len(PARAMS)):
            for at in [1, 2, 3, 4, 5, 6, 7, 8, 9, 99]:
                for oname, other in (('Model()', lambda: Model()), ('build', lambda: build_model(*PARAMS[1 - j])), ('build+solve', lambda: series_of_model(PARAMS[1 - j]))):
                    if tier == 'quick' and oname == 'build':
                        continue
                    try:
                        got = series_of_model(PARAMS[j], interrupt_at=at, interruption=other)
                        bad = None
                        if got != ref['models'][j]:
                            diff = [k for k in got if got[k] != ref['models'][j].get(k)]
                            bad = 'model %d with %s interposed before construction step %d differs from the reference in %r' % (j, oname, at, diff[:5])
                    except Exception as ex:
                        bad = 'model %d with %s interposed before construction step %d raised %s: %s' % (j, oname, at, type(ex).__name__, str(ex)[:200])
                    r.case(('interposed', j, at, oname), True)
                    if bad:
                        r.fail('history', {'interposed': [j, at, oname]}, bad)
                        return r
        for i in range(n):
            actions = []
            solver = None
            for _ in range(rnd.randint(2, 6)):
                a = rnd.choice(['block', 'block_traced', 'block_twice', 'model', 'model_interleaved', 'log_on', 'log_off', 'reparse'])
                actions.append(a)
            bad = None
            reparse_solver = EquationSolver(BLOCKS[0])
            reparse_solver.SolveEquation()
            for a in actions:
              try:
                if a == 'model_interleaved':
                    # another model is started (or built and solved) in the middle of building this one
                    j = rnd.randrange(len(PARAMS))
                    at = rnd.choice([1, 2, 3, 4, 5, 6, 7, 8, 9, 99])
                    other = rnd.choice([lambda: Model(), lambda: series_of_model(PARAMS[1 - j]), lambda: build_model(*PARAMS[1 - j])])
                    got = series_of_model(PARAMS[j], interrupt_at=at, interruption=other)
                    if got != ref['models'][j]:
                        diff = [k for k in got if got[k] != ref['models'][j].get(k)]
                        bad = 'model %d built with another model started before construction step %d, after %r, differs from the reference in %r' % (j, at, actions, diff[:5])
                elif a == 'log_on':
                    try:
                        Logger.register_log(os.path.join(tmp, 'log%d.txt' % rnd.randint(0, 10 ** 9)), 'log')
                        Logger.register_log(os.path.join(tmp, 'step%d.txt' % rnd.randint(0, 10 ** 9)), 'step')
                    except ValueError:
                        pass
                elif a == 'log_off':
                    Logger.cleanup()
                elif a in ('block', 'block_traced', 'block_twice'):
                    j = rnd.randrange(len(BLOCKS))
                    got = series_of_block(BLOCKS[j], trace=(2 if a == 'block_traced' else None), resolve=(2 if a == 'block_twice' else 1))
                    if got != ref['blocks'][j]:
                        bad = 'block %d after %r: %r != reference %r' % (j, actions, got, ref['blocks'][j])
                elif a == 'model':
                    j = rnd.randrange(len(PARAMS))
                    got = series_of_model(PARAMS[j])
                    if got != ref['models'][j]:
                        diff = [k for k in got if got[k] != ref['models'][j].get(k)]
                        bad = 'model %d after %r differs from the reference in %r' % (j, actions, diff[:5])
                elif a == 'reparse':
                    j = rnd.randrange(len(BLOCKS))
                    reparse_solver.ParseString(BLOCKS[j])
                    reparse_solver.SolveEquation()
                    got = dict((k, list(v)) for k, v in reparse_solver.TimeSeries.items())
                    if got != ref['blocks'][j]:
                        bad = 're-parsed solver (block %d) after %r: keys %r, reference keys %r' % (j, actions, sorted(got), sorted(ref['blocks'][j]))
              except Exception as ex:
                bad = 'action %r (after %r) raised %s: %s; the isolated reference run raises nothing' % (a, actions, type(ex).__name__, str(ex)[:200])
              if bad:
                    break
            Logger.cleanup()
            r.case(tuple(actions), len(actions) >= 3, sample={'actions': actions} if i < 2 else None)
            if bad:
                r.fail('history', {'actions': actions, 'seed': seed, 'index': i}, bad)
                break
    finally:
        import shutil
        shutil.rmtree(tmp, ignore_errors=True)
    return r


FUNCS = {'history': history}


def replay(payload):
    r = history('quick', 0)
    if r.failures:
        return {'reproduced': True, 'detail': r.failures[0]['detail'], 'input': r.failures[0]['input'], 'note': 'found by the bounded search'}
    return {'reproduced': False, 'detail': 'no interleaving of the bounded search differs from the reference'}


if __name__ == '__main__':
    main(FUNCS, replay)
