"""C18 bounded stand-in: codes are labels (renaming) and economies with distinct currencies do not interact (embedding)."""
import copy, random, sys, os
sys.path.insert(0, os.path.dirname(os.path.abspath(__file__)))
from common import *   # noqa
import modelgen as M

NEW = dict(gov=['GOVT', 'STATE', 'G1'], hh=['HOUSE', 'FAM', 'H1'], bus=['FIRM', 'CORP', 'B1'], tf=['TAXES', 'FISC', 'TX'],
           good=['WIDGET', 'BREAD', 'Q'], lab=['WORK', 'JOBS', 'L'], cap=['RICH', 'OWNERS', 'K1'], tre=['TREAS', 'FIN', 'T1'], cb=['BANK', 'ISSUER', 'C1'])
COUNTRY = ['ZZ', 'NORTH', 'X1', 'Q']


def solve_series(prog):
    mod, objs = M.solve(prog)
    return M.series(mod), mod


def rename_var(name, cmap_full, codemaps):
    """candidates for the counterpart of FullCode__LOCAL; LOCAL may be DEM_<code>, SUP_<code>, SUP_<fullcode>, DEM_<fullcode>;
    codemaps: country prefix ('' for a single country) -> {old short code: new short code}"""
    if '__' not in name:
        return [name]
    full, local = name.split('__', 1)
    full2 = cmap_full.get(full, full)
    out = []
    for pre in ('LAG_DEM_', 'LAG_SUP_', 'DEM_', 'SUP_', 'WGT_', 'INT_'):
        if local.startswith(pre):
            suf = local[len(pre):]
            if suf in cmap_full:
                out.append(full2 + '__' + pre + cmap_full[suf])
            for prefix, cm in codemaps.items():
                if suf in cm and full.startswith(prefix):
                    out.append(full2 + '__' + pre + cm[suf])
            break
    out.append(full2 + '__' + local)
    return out


def rename_case(rnd, variant):
    multi = rnd.random() < 0.4
    codes = ['CA', 'US'] if multi else ['CA']
    countries = [M.economy(rnd, c, c + 'D', variant=variant if i == 0 else rnd.choice(['sim', 'simx', 'sim_margin_cap'])) for i, c in enumerate(codes)]
    prog = dict(external=False, countries=countries, horizon=4)
    prog2 = copy.deepcopy(prog)
    cmap_full, codemaps = {}, {}
    for ci, c in enumerate(prog2['countries']):
        newc = rnd.choice(COUNTRY) + str(ci)
        names = dict((role, rnd.choice(NEW[role]) + rnd.choice(['', 'X'])) for role in NEW)
        seed_state = random.Random(0)
        old = prog['countries'][ci]
        # the same economy (same sectors, same parameters), only the codes change
        oldmap = dict((oldcode, names[role]) for role, oldcode in old['roles'].items())
        e2 = copy.deepcopy(old)
        e2['code'] = newc
        for s_new in e2['sectors']:
            for k in ('code', 'good', 'lab', 'to', 'issuer', 'treasury'):
                if k in s_new and s_new[k] in oldmap and not (s_new['kind'] == 'deposit' and k == 'code'):
                    s_new[k] = oldmap[s_new[k]]
        for k in ('hh', 'gov'):
            e2[k] = oldmap[old[k]]
        e2['roles'] = dict((role, names[role]) for role in old['roles'])
        e2['exo'] = [(e2['gov'], 'DEM_' + names['good'], old['exo'][0][2])]
        old['exo'] = [(old['gov'], 'DEM_' + old['roles']['good'], old['exo'][0][2])]
        prog2['countries'][ci] = e2
        pre_old = (old['code'] + '_') if multi else ''
        pre_new = (newc + '_') if multi else ''
        codemaps[pre_old] = dict((oldcode, names[role]) for role, oldcode in old['roles'].items())
        for s_old, s_new in zip(old['sectors'], e2['sectors']):
            co, cn = s_old.get('code', s_old['kind'].upper()), s_new.get('code', s_new['kind'].upper())
            if s_old['kind'] == 'money':
                co = cn = 'MON'
            if s_old['kind'] == 'deposit':
                co = cn = s_old.get('code', 'DEP')
            cmap_full[pre_old + co] = pre_new + cn
    return prog, prog2, cmap_full, codemaps


SKIP_LOCAL = ('PRIM_BAL',)       # government classes hard-code DEM_GOOD in their primary balance and take no good-name parameter


def compare(a, b, mapping, tol=2e-4):
    used = set()
    for name, ser in a.items():
        if name.split('__')[-1] in SKIP_LOCAL:
            continue
        cands = [n for n in mapping(name) if n in b]
        if not cands:
            return 'variable %s has no counterpart (looked for %r)' % (name, mapping(name))
        n2 = cands[0]
        used.add(n2)
        for k, (x, y) in enumerate(zip(ser, b[n2])):
            if not M.close(x, y, tol):
                return 'variable %s / %s differ in period %d: %r vs %r' % (name, n2, k, x, y)
    extra = set(n for n in set(b) - used if not n.endswith('__DEM_GOOD') and n.split('__')[-1] not in SKIP_LOCAL)
    if extra:
        return 'the other model has extra variables %r' % sorted(extra)[:4]
    return None


def run_rename(case):
    prog, prog2, cmap_full, codemaps = case
    a, _ = solve_series(prog)
    b, _ = solve_series(prog2)
    return compare(a, b, lambda n: rename_var(n, cmap_full, codemaps))


def rename(tier, seed, **opts):
    r = Result('random economies (sim / sim with capitalists and margin / expectations household / treasury + central bank + money and deposit markets), '
               '1-2 countries, every country / sector / market code renamed injectively through the constructor parameters, both solved over 4 periods and '
               'compared series by series under the renaming: 16 (quick) / 300 (thorough); distinct = (variants, countries)')
    rnd = random.Random(seed)
    variants = ['sim', 'sim_margin_cap', 'simx', 'pc']
    for i in range(16 if tier == 'quick' else 300):
        case = rename_case(rnd, variants[i % 4])
        try:
            bad = run_rename(case)
        except Exception as ex:
            import traceback
            bad = 'building / solving raised %s: %s' % (type(ex).__name__, traceback.format_exc()[-500:])
        key = (tuple(c['variant'] for c in case[0]['countries']),)
        r.case(key, True, sample={'shape': key} if i < 2 else None)
        if bad:
            r.fail('rename', {'case': case}, bad)
            break
    return r


def run_embed(progs, external):
    joint = dict(external=external, countries=[p['countries'][0] for p in progs], horizon=4)
    js, jm = solve_series(joint)
    for p in progs:
        alone, _ = solve_series(p)
        c = p['countries'][0]
        code = c['code']
        cmap_full = {}
        for s_ in c['sectors']:
            sc = 'MON' if s_['kind'] == 'money' else (s_.get('code', 'DEP') if s_['kind'] == 'deposit' else s_.get('code'))
            cmap_full[sc] = code + '_' + sc
        sub = dict((k, v) for k, v in alone.items() if '__' in k)
        mine = dict((k, v) for k, v in js.items() if k.startswith(code + '_'))
        bad = compare(sub, mine, lambda n: rename_var(n, cmap_full, {}))
        if bad:
            return 'economy %s alone vs embedded: %s' % (code, bad)
    return None


def embed(tier, seed, **opts):
    r = Result('2-3 random economies with pairwise different currencies and no declared flows, solved alone and in one model (with / without an unused '
               'external sector): every series must agree under the country-code prefix: 10 (quick) / 150 (thorough)')
    rnd = random.Random(seed)
    for i in range(10 if tier == 'quick' else 150):
        n = rnd.choice([2, 2, 3])
        progs = [dict(external=False, countries=[M.economy(rnd, c, c + 'D')], horizon=4) for c in ['CA', 'US', 'UK'][:n]]
        if rnd.random() < 0.5:
            # the second economy re-uses the first one's codes for OTHER roles (its government is coded HH, its household GOV, ...)
            c1 = progs[1]['countries'][0]
            swap = dict(gov='HH', hh='GOV', bus='TF', tf='BUS', tre='CB', cb='TRE')
            e2 = M.economy(random.Random(i), c1['code'], c1['currency'], variant=c1['variant'], names=swap)
            for s_old, s_new in zip(c1['sectors'], e2['sectors']):
                for k_, v_ in s_old.items():
                    if k_ not in ('code', 'good', 'lab', 'to', 'issuer', 'treasury'):
                        s_new[k_] = v_
            e2['exo'] = [(e2['gov'], 'DEM_GOOD', c1['exo'][0][2])]
            progs[1]['countries'][0] = e2
        external = rnd.random() < 0.5
        try:
            bad = run_embed(progs, external)
        except Exception as ex:
            import traceback
            bad = 'building / solving raised %s: %s' % (type(ex).__name__, traceback.format_exc()[-500:])
        key = (tuple(p['countries'][0]['variant'] for p in progs), external)
        r.case(key, True, sample={'shape': key} if i < 2 else None)
        if bad:
            r.fail('embed', {'progs': progs, 'external': external}, bad)
            break
    return r


def run_scoping(layout, code):
    """layout: list of (country code, currency, [sector codes]); the zone searches must see exactly the zone's sectors"""
    from sfc_models.models import Model, Country
    from sfc_models.sector import Sector
    from sfc_models.utils import LogicError
    mod = Model()
    secs = {}
    for (cc, cur, codes) in layout:
        co = Country(mod, cc, currency=cur)
        for sc in codes:
            secs[(cc, sc)] = Sector(co, sc, has_F=False)
    for cz in mod.CurrencyZoneList:
        want = [secs[(cc, sc)] for (cc, cur, codes) in layout if cur == cz.Currency for sc in codes]
        got = cz.GetSectors()
        if sorted(x.ID for x in got) != sorted(x.ID for x in want):
            return 'zone %s: GetSectors returned %r, the zone holds %r' % (cz.Currency, [x.FullCode or x.Code for x in got], [x.Code for x in want])
        hits = [x for x in want if x.Code == code]
        try:
            r = cz.LookupSector(code)
        except LogicError:
            if len(hits) == 1:
                return 'zone %s: LookupSector(%r) refused although exactly one sector of the zone has the code' % (cz.Currency, code)
            continue
        if len(hits) != 1:
            return 'zone %s: LookupSector(%r) returned a sector although %d sectors of the zone have the code' % (cz.Currency, code, len(hits))
        if r is not hits[0]:
            return 'zone %s: LookupSector(%r) returned a sector of another zone / the wrong sector' % (cz.Currency, code)
    return None


def scoping(tier, seed, **opts):
    r = Result('random layouts of 1-4 countries over 1-3 currencies with 0-4 sectors each, codes drawn from 4 names (duplicates inside and across '
               'zones): CurrencyZone.GetSectors / LookupSector against the definition: 300 (quick) / 5000 (thorough)')
    rnd = random.Random(seed)
    for i in range(300 if tier == 'quick' else 5000):
        layout = []
        for k in range(rnd.randint(1, 4)):
            layout.append(('C%d' % k, rnd.choice(['AAA', 'BBB', 'CCC']), rnd.sample(['X', 'Y', 'Z', 'W'], rnd.randint(0, 4))))
        code = rnd.choice(['X', 'Y', 'Z', 'W', 'Q'])
        try:
            bad = run_scoping(layout, code)
        except Exception as ex:
            import traceback
            bad = 'raised %s: %s' % (type(ex).__name__, traceback.format_exc()[-400:])
        r.case((len(layout), len(set(l[1] for l in layout))), True, sample={'layout': layout} if i < 2 else None)
        if bad:
            r.fail('scoping', {'layout': layout, 'code': code}, bad)
            break
    return r


FUNCS = {'rename': rename, 'embed': embed, 'scoping': scoping}


def replay(payload):
    if payload.get('kind') == 'bounded-failure':
        inp = payload['native']['input']
        try:
            bad = run_rename(inp['case']) if 'case' in inp else (run_scoping(inp['layout'], inp['code']) if 'layout' in inp else run_embed(inp['progs'], inp['external']))
        except Exception as ex:
            bad = 'building / solving raised %s: %s' % (type(ex).__name__, ex)
        return {'reproduced': bool(bad), 'detail': bad, 'input': inp}
    for f in (scoping, rename, embed):
        r = f('quick', 0)
        if r.failures:
            return {'reproduced': True, 'detail': r.failures[0]['detail'], 'input': r.failures[0]['input'], 'note': 'found by the bounded search'}
    return {'reproduced': False, 'detail': 'no generated economy depends on its codes or on an unrelated economy'}


if __name__ == '__main__':
    main(FUNCS, replay)
