"""
C19 bounded stand-in: T-FMT audit (parse-back precision) + native cross-check of the table contract.
"""
import random, sys, os, math
sys.path.insert(0, os.path.dirname(os.path.abspath(__file__)))
from common import *   # noqa
from sfc_models.utils import TimeSeriesHolder

PRIO = ('iteration', 'iteration_error', 'iteration_abs_change', 'k', 't')
FORMATS = ['%.5g', '%r', '%d', '%.12e', '%s']


def expected_header(keys):
    pri = [p for p in PRIO if p in keys]
    rest = sorted(k for k in keys if k not in PRIO)
    return pri + rest


def check_table(h, fmt):
    """returns None or a description of the violated clause"""
    before = dict((k, list(v)) for k, v in h.items())
    try:
        txt = h.GenerateCSVtext(fmt)
    except Exception as ex:   # noqa  -- the contract allows no exception for well-typed stored series
        return 'GenerateCSVtext raised %r' % (ex,)
    if dict((k, list(v)) for k, v in h.items()) != before:
        return 'store changed by rendering'
    if not h:
        return None if txt == '' else 'empty holder renders %r' % txt
    lines = txt.split('\n')
    if lines[-1] != '':
        return 'text does not end with a newline'
    lines = lines[:-1]
    hdr = lines[0].split('\t')
    if hdr != expected_header(list(h.keys())):
        return 'header %r, expected %r' % (hdr, expected_header(list(h.keys())))
    n = min(len(v) for v in h.values())
    if len(lines) - 1 != n:
        return '%d data rows, expected %d' % (len(lines) - 1, n)
    for i, ln in enumerate(lines[1:]):
        cells = ln.split('\t')
        if len(cells) != len(hdr):
            return 'row %d has %d cells' % (i, len(cells))
        for name, c in zip(hdr, cells):
            v = h[name][i]
            if c != fmt % (v,):
                return 'cell (%d,%s) is %r, expected %r' % (i, name, c, fmt % (v,))
            # T-FMT audit: parse back
            if fmt == '%d':
                if int(c) != int(v):
                    return 'parse-back %r != int(%r)' % (c, v)
            else:
                back = float(c)
                if fmt in ('%r', '%s', '%.12e'):
                    tol = 1e-12 * max(abs(v), 1e-300) if fmt == '%.12e' else 0.0
                else:
                    tol = 1e-4 * abs(v)
                if abs(back - v) > tol and not (math.isinf(v) or math.isnan(v)):
                    return 'parse-back of %r (%r) differs from %r beyond the format precision' % (c, back, v)
    return None


def rnd_value(rnd, fmt):
    if fmt == '%d' or rnd.random() < 0.2:
        return rnd.randint(-10 ** 6, 10 ** 6)
    mag = rnd.choice([1e-300, 1e-12, 1e-3, 1.0, 37.5, 1e6, 1e15, 1e300])
    return rnd.choice([-1, 1]) * rnd.random() * mag


def table(tier, seed, **opts):
    r = Result('random TimeSeriesHolder contents (see bound); a case is non-trivial when it has >=2 series and >=1 row; '
               'distinct = distinct (sorted names, lengths, format)')
    rnd = random.Random(seed)
    n = 300 if tier == 'quick' else 5000
    names_pool = list(PRIO) + ['a', 'B', 'zz', 'HH__F', 'k2', 'T', 'iteration_', '_x']
    for c in range(n):
        fmt = FORMATS[c % len(FORMATS)]
        h = TimeSeriesHolder('k')
        names = rnd.sample(names_pool, rnd.randint(0, 6))
        for nm in names:
            h[nm] = [rnd_value(rnd, fmt) for _ in range(rnd.randint(0, 5))]
        bad = check_table(h, fmt)
        key = (tuple(sorted(names)), tuple(len(h[x]) for x in sorted(names)), fmt)
        r.case(key, len(names) >= 2 and min([len(v) for v in h.values()] or [0]) >= 1,
               sample={'series': dict(h), 'format': fmt})
        if bad:
            r.fail('table', {'series': dict(h), 'format': fmt}, bad)
            break
    return r


def check_sequence(rnd):
    """render, change the set of series through every dict entry point, render again: each rendering must be the table of the
    series stored at that moment"""
    h = TimeSeriesHolder('k')
    h['b'] = [1.0, 2.0]
    h['t'] = [0.0, 1.0]
    ops = [lambda: h.update({'a': [5.0, 6.0]}), lambda: h.setdefault('iteration', [0.0, 1.0]), lambda: h.pop('b'),
           lambda: h.__setitem__('zz', [7.0, 8.0]), lambda: h.__delitem__('t'), lambda: h.AppendValue('k', 3.0), lambda: h.AppendValue('k', 4.0),
           lambda: h.update(k2=[1.0, 1.0])]
    rnd.shuffle(ops)
    bad = check_table(h, '%.5g')
    for op in ops:
        if bad:
            return bad
        op()
        bad = check_table(h, '%.5g')
        if bad:
            return 'after a change of the stored series: ' + bad
    return None


def sequences(tier, seed, **opts):
    r = Result('sequences render / mutate (update, setdefault, pop, del, item assignment, AppendValue) / render on one holder, 30 (quick) / 500 '
               '(thorough) random orders; every rendering checked against the series stored at that moment; all cases non-trivial')
    rnd = random.Random(seed)
    for i in range(30 if tier == 'quick' else 500):
        bad = check_sequence(rnd)
        r.case(('seq', i), True, sample={'order': i} if i < 1 else None)
        if bad:
            r.fail('sequence', {'seed': seed, 'index': i}, bad)
            break
    return r


FUNCS = {'table': table, 'sequences': sequences}


def replay(payload):
    if payload.get('kind') == 'bounded-failure':
        inp = payload['native']['input']
        h = TimeSeriesHolder('k')
        for k, v in inp['series'].items():
            h[k] = list(v)
        bad = check_table(h, inp['format'])
        return {'reproduced': bool(bad), 'detail': bad, 'input': inp}
    # refuted obligation: search the enumerated neighbourhood for a natively failing holder
    r = sequences('quick', 0)
    if r.failures:
        return {'reproduced': True, 'detail': r.failures[0]['detail'], 'input': r.failures[0]['input'],
                'note': 'failing call sequence found by the bounded search, not decoded from the counter-model'}
    r = table('quick', 0)
    if r.failures:
        return {'reproduced': True, 'detail': r.failures[0]['detail'], 'input': r.failures[0]['input'],
                'note': 'failing input found by the bounded search, not decoded from the counter-model'}
    # a few deterministic corner cases
    for names in (['t', 'k', 'b', 'a'], ['iteration_error', 'iteration', 'x'], ['a']):
        h = TimeSeriesHolder('k')
        for i, nm in enumerate(names):
            h[nm] = [float(i), float(i) + 1, float(i) + 2][:3 - (i % 2)]
        bad = check_table(h, '%.5g')
        if bad:
            return {'reproduced': True, 'detail': bad, 'input': dict(h)}
    return {'reproduced': False, 'detail': 'no natively failing holder found'}


if __name__ == '__main__':
    main(FUNCS, replay)
