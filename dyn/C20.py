"""C20 bounded stand-in and replay: the generated stand-alone module runs and agrees with its own equations and with the in-process solver."""
import importlib.util, math, os, random, shutil, sys, tempfile, warnings
sys.path.insert(0, os.path.dirname(os.path.abspath(__file__)))
from common import *   # noqa
from sfc_models.deprecated.iterative_machine_generator import IterativeMachineGenerator
from sfc_models.equation_solver import EquationSolver
from sfc_models.equation_parser import EquationParser


def make_block(rnd):
    n = rnd.randint(2, 4)
    vs = ['x%d' % i for i in range(n)]
    lines = []
    for i, v in enumerate(vs):
        others = [u for u in vs if u != v]
        terms = ['%s*%s' % (round(rnd.uniform(-0.3, 0.3), 2), rnd.choice(others))]
        if i == 0:
            terms.append('0.4*LAGX')
        if i == 1:
            terms.append('0.5*g')
        terms.append(str(round(rnd.uniform(1, 4), 2)))
        lines.append('%s = %s' % (v, ' + '.join(terms)))
    lines.append('LAGX = %s(k-1)' % rnd.choice(vs))
    if rnd.random() < 0.4:
        lines.append('c = %r' % round(rnd.uniform(1, 3), 2))
        lines[0] += ' + 0.1*c'
    user_t = rnd.random() < 0.35
    if user_t:
        lines.append('t = LAGT + 1.0')
        lines.append('LAGT = t(k-1)')
    ic = {}
    if rnd.random() < 0.5:
        v = rnd.choice(vs)
        ic[v] = round(rnd.uniform(0, 3), 2)
        lines.append('%s(0) = %r' % (v, ic[v]))
    T = rnd.randint(2, 5)
    g = [round(rnd.uniform(1, 5), 1) for _ in range(T + 3)]
    rnd.shuffle(lines)
    lines += ['exogenous', 'g = %r' % g, 'MaxTime = %d' % T, 'Err_Tolerance = 1e-9']
    return '\n'.join(lines)


def run_generated(text, tmp, idx):
    gen = IterativeMachineGenerator(text)
    fname = os.path.join(tmp, 'gen_%d.py' % idx)
    gen.main(fname)
    spec = importlib.util.spec_from_file_location('gen_%d' % idx, fname)
    mod = importlib.util.module_from_spec(spec)
    spec.loader.exec_module(mod)
    obj = mod.SFCModel()
    obj.main()
    return obj, gen


def check_block(text, tmp, idx, tol=1e-6):
    parser = EquationParser()
    parser.ParseString(text)
    try:
        ref = EquationSolver(text, run_equation_reduction=False)
        ref.MaxIterations = 2000
        ref.SolveEquation()
    except Exception:
        return None, False
    try:
        with warnings.catch_warnings():
            warnings.simplefilter('ignore')
            obj, gen = run_generated(text, tmp, idx)
    except Exception as ex:
        import traceback
        return 'the generated module failed to import / run: %s: %s\n%s' % (type(ex).__name__, str(ex)[:200], text), True
    T = parser.MaxTime
    names = [v for v, _ in parser.Endogenous] + [v for v, _ in parser.Exogenous]
    series = {}
    for v in names:
        if not hasattr(obj, v):
            return 'generated model has no series %s\n%s' % (v, text), True
        series[v] = list(getattr(obj, v))
    # its own equations hold in every period k >= 1 (lags from its own previous period, exogenous from the supplied path)
    for k in range(1, T + 1):
        env = dict((v, series[v][k]) for v in names if len(series[v]) > k)
        env['k'] = float(k)
        for lv, src in parser.Lagged:
            env[lv] = series[src][k - 1]
        for v, eqn in parser.Endogenous:
            if len(series[v]) <= k:
                return 'series %s has %d points, horizon %d\n%s' % (v, len(series[v]), T, text), True
            want = eval(eqn, {'__builtins__': {}}, dict(env))
            if abs(want - series[v][k]) > 1e-4 * max(1.0, abs(want)):
                return 'generated solver: %s(%d) = %r but its equation gives %r\n%s' % (v, k, series[v][k], want, text), True
    # same k = 0 values => same series as the in-process solver
    same_start = all(abs(series[v][0] - ref.TimeSeries[v][0]) < 1e-12 for v, _ in parser.Endogenous)
    if same_start:
        for v, _ in parser.Endogenous:
            for k in range(0, T + 1):
                a, b = series[v][k], ref.TimeSeries[v][k]
                if abs(a - b) > 1e-4 * max(1.0, abs(a), abs(b)):
                    return 'variable %s differs in period %d: generated %r, in-process %r\n%s' % (v, k, a, b, text), True
    # table: time axis first, every non-lagged variable exactly once
    csv = obj.CreateCsvString()
    header = csv.split('\n')[0].split('\t')
    if header[0] != 't':
        return 'table does not start with the time axis: %r\n%s' % (header, text), True
    if sorted(header) != sorted(set(names)):
        return 'table columns %r, non-lagged variables %r\n%s' % (header, sorted(set(names)), text), True
    return None, True


def modules(tier, seed, **opts):
    r = Result('random blocks (2-4 simultaneous affine equations, a lag, optional constant, optional user time axis t = LAGT + 1, optional initial condition, exogenous list), '
               'code generated, imported and run: its equations re-evaluated on its own series for k >= 1, series compared with the in-process solver when the k = 0 '
               'values agree, table header checked: 25 (quick) / 400 (thorough)')
    rnd = random.Random(seed)
    tmp = tempfile.mkdtemp(prefix='c20gen_')
    try:
        for i in range(25 if tier == 'quick' else 400):
            text = make_block(rnd)
            try:
                bad, ok = check_block(text, tmp, i)
            except Exception as ex:
                import traceback
                bad, ok = 'harness: %s' % traceback.format_exc()[-400:], True
            r.case(('t =' in text, '(0)' in text, 'c =' in text), ok, sample={'text': text} if i < 2 else None)
            if bad:
                r.fail('modules', {'text': text}, bad)
                break
    finally:
        shutil.rmtree(tmp, ignore_errors=True)
    return r


FUNCS = {'modules': modules}


def replay(payload):
    if payload.get('kind') == 'bounded-failure':
        text = payload['native']['input']['text']
        tmp = tempfile.mkdtemp(prefix='c20gen_')
        try:
            bad, ok = check_block(text, tmp, 0)
        finally:
            shutil.rmtree(tmp, ignore_errors=True)
        return {'reproduced': bool(bad), 'detail': bad, 'input': {'text': text}}
    r = modules('quick', 0)
    if r.failures:
        return {'reproduced': True, 'detail': r.failures[0]['detail'], 'input': r.failures[0]['input'], 'note': 'found by the bounded search'}
    return {'reproduced': False, 'detail': 'every generated module runs and satisfies its equations'}


if __name__ == '__main__':
    main(FUNCS, replay)
