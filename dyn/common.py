"""
common.py - helpers of the bounded back end (runs under /venv/bin/python on the REAL code in /repo).

A harness module defines
    FUNCS = {name: callable(tier, seed, **opts) -> Result}
    replay(payload) -> {'reproduced': bool, 'detail': str, 'input': ...}
and ends with `main(FUNCS, replay)`.
Bounded results are evidence of a *bounded* check only; they never count as discharged obligations.
"""
import argparse
import json
import os
import random
import sys
import time
import warnings

sys.path.insert(0, os.environ.get('PYVC_REPO', '/repo'))
warnings.simplefilter('ignore')


class Result(object):
    def __init__(self, rule):
        self.rule = rule
        self.cases = 0
        self.distinct = set()
        self.failures = []
        self.samples = []
        self.exhaustive = False
        self.skipped = 0

    def case(self, key, nontrivial=True, sample=None):
        self.cases += 1
        if nontrivial:
            self.distinct.add(key)
        if sample is not None and len(self.samples) < 4:
            self.samples.append(sample)

    def fail(self, case_id, inp, detail):
        if len(self.failures) < 20:
            self.failures.append({'case_id': case_id, 'input': inp, 'detail': detail})

    def to_json(self):
        return {'cases': self.cases, 'distinct_nontrivial': len(self.distinct), 'rule': self.rule,
                'failures': self.failures, 'samples': self.samples, 'exhaustive': self.exhaustive,
                'skipped': self.skipped, 'status': 'fail' if self.failures else 'ok'}


def parse_model_value(s):
    """z3 model value (as text) -> python value"""
    if s is None:
        return None
    s = str(s).strip()
    if s in ('None', '"None"'):
        return None
    if s in ('True', 'False'):
        return s == 'True'
    if s.startswith('"') and s.endswith('"'):
        body = s[1:-1]
        # z3 escapes: \u{..}
        import re
        body = re.sub(r'\\u\{([0-9a-fA-F]+)\}', lambda m: chr(int(m.group(1), 16)), body)
        return body.replace('""', '"')
    try:
        return int(s)
    except ValueError:
        pass
    try:
        if '/' in s:
            a, b = s.split('/')
            return float(a) / float(b)
        return float(s.rstrip('?'))
    except ValueError:
        return s


def main(funcs, replay):
    ap = argparse.ArgumentParser()
    ap.add_argument('--func')
    ap.add_argument('--tier', default='quick')
    ap.add_argument('--seed', default='0')
    ap.add_argument('--out')
    ap.add_argument('--replay')
    a, rest = ap.parse_known_args()
    if a.replay:
        with open(a.replay) as f:
            payload = json.load(f)
        try:
            res = replay(payload)
        except Exception as ex:   # noqa
            import traceback
            res = {'reproduced': False, 'detail': 'replay harness error: ' + traceback.format_exc()[-800:]}
        print(json.dumps(res, default=str))
        return 0
    opts = {}
    it = iter(rest)
    for x in it:
        if x.startswith('--'):
            opts[x[2:]] = next(it, None)
    t0 = time.time()
    r = funcs[a.func](a.tier, int(a.seed), **opts)
    out = r.to_json()
    out['wall_s'] = round(time.time() - t0, 2)
    with open(a.out, 'w') as f:
        json.dump(out, f, default=str)
    return 0
