"""
modelgen.py - "model programs" executed through the public API of sfc_models (bounded back end and replay vehicle for the
whole-model properties C01 C04 C05 C07 C08 C18).

A program is a dict:
  {'external': bool, 'countries': [{'code','currency','sectors': [ {kind, code, ...params} ... ]}],
   'flows': [(src_country, src_sector, dst_country, dst_sector, var, amount_expr)], 'suppliers': [...], 'horizon': int}
Sector kinds: gov, treasury, cb, hh, hhx (expectations), cap, bus, tf, market, money, deposit.
The order of the `sectors` list is the declaration order (C08 permutes it); codes are labels (C18 renames them).
"""
import copy, itertools, math, random, re, sys, os, tokenize, io
sys.path.insert(0, os.path.dirname(os.path.abspath(__file__)))
from common import *   # noqa
from sfc_models.models import Model, Country
from sfc_models.sector import Market, Sector
from sfc_models.sector_definitions import (Household, HouseholdWithExpectations, Capitalists, ConsolidatedGovernment, Treasury,
                                           CentralBank, FixedMarginBusiness, TaxFlow, MoneyMarket, DepositMarket)
from sfc_models.external import ExternalSector
from sfc_models.utils import list_tokens


def economy(rnd, code='CA', currency=None, variant=None, names=None):
    """one single-country economy; `names` maps role -> code (gov, hh, bus, tf, good, lab, cap)"""
    nm = dict(gov='GOV', hh='HH', bus='BUS', tf='TF', good='GOOD', lab='LAB', cap='CAP', tre='TRE', cb='CB')
    nm.update(names or {})
    variant = variant or rnd.choice(['sim', 'sim_margin_cap', 'simx', 'pc'])
    a1, a2 = round(rnd.uniform(0.5, 0.8), 4), round(rnd.uniform(0.2, 0.45), 4)
    tax = round(rnd.uniform(0.1, 0.3), 4)
    g = round(rnd.uniform(10, 40), 1)
    secs = []
    if variant == 'pc':
        secs += [dict(kind='treasury', code=nm['tre']), dict(kind='cb', code=nm['cb'], treasury=nm['tre'])]
        govcode = nm['tre']
    else:
        secs += [dict(kind='gov', code=nm['gov'])]
        govcode = nm['gov']
    hk = 'hhx' if variant == 'simx' else 'hh'
    secs += [dict(kind=hk, code=nm['hh'], alpha_income=a1, alpha_fin=a2, good=nm['good'], lab=nm['lab'])]
    margin = round(rnd.uniform(0.05, 0.2), 3) if variant == 'sim_margin_cap' else 0.0
    if variant == 'sim_margin_cap':
        secs += [dict(kind='cap', code=nm['cap'], alpha_income=round(rnd.uniform(0.3, 0.6), 4), alpha_fin=round(rnd.uniform(0.1, 0.3), 4), good=nm['good'])]
        if rnd.random() < 0.5:
            # a sector-level tax rate (used instead of the tax flow's rate for this sector only)
            secs[-1]['own_taxrate'] = round(rnd.uniform(0.3, 0.5), 3)
    secs += [dict(kind='bus', code=nm['bus'], margin=margin, lab=nm['lab'], good=nm['good']),
             dict(kind='market', code=nm['lab']), dict(kind='market', code=nm['good']),
             dict(kind='tf', code=nm['tf'], rate=tax, to=govcode)]
    if variant == 'pc':
        secs += [dict(kind='money', issuer=nm['cb']), dict(kind='deposit', issuer=nm['tre'])]
        if rnd.random() < 0.4:
            secs += [dict(kind='deposit', code='BOND', issuer=nm['tre'])]
    return dict(code=code, currency=currency or code, sectors=secs, variant=variant,
                exo=[(govcode, 'DEM_' + nm['good'] if False else 'DEM_GOOD', '[%r]*60' % g)], hh=nm['hh'], gov=govcode, roles=nm)


def build(program):
    """construct the real Model from a program; returns (model, objects by (country, code))"""
    mod = Model()
    objs = {}
    if program.get('external'):
        ExternalSector(mod)
    countries = {}
    for c in program['countries']:
        co = Country(mod, c['code'], currency=c.get('currency'))
        countries[c['code']] = co
    # sectors in the given global order: list of (country index, sector index) or per-country order
    order = program.get('order')
    if order is None:
        order = [(ci, si) for ci, c in enumerate(program['countries']) for si in range(len(c['sectors']))]
    pending_cb = []
    for (ci, si) in order:
        c = program['countries'][ci]
        co = countries[c['code']]
        s = c['sectors'][si]
        k = s['kind']
        if k == 'gov':
            o = ConsolidatedGovernment(co, s['code'])
        elif k == 'treasury':
            o = Treasury(co, s['code'])
        elif k == 'cb':
            o = CentralBank(co, s['code'])
            pending_cb.append((o, c['code'], s['treasury']))
        elif k == 'hh':
            o = Household(co, s['code'], alpha_income=s['alpha_income'], alpha_fin=s['alpha_fin'], consumption_good_name=s['good'], labour_name=s['lab'])
        elif k == 'hhx':
            o = HouseholdWithExpectations(co, s['code'], alpha_income=s['alpha_income'], alpha_fin=s['alpha_fin'], consumption_good_name=s['good'], labour_name=s['lab'])
        elif k == 'cap':
            o = Capitalists(co, s['code'], alpha_income=s['alpha_income'], alpha_fin=s['alpha_fin'], consumption_good_name=s['good'])
        elif k == 'bus':
            o = FixedMarginBusiness(co, s['code'], profit_margin=s['margin'], labour_input_name=s['lab'], output_name=s['good'])
        elif k == 'market':
            o = Market(co, s['code'])
        elif k == 'tf':
            o = TaxFlow(co, s['code'], taxrate=s['rate'], taxes_paid_to=s['to'])
        elif k == 'money':
            o = MoneyMarket(co, issuer_short_code=s['issuer'])
        elif k == 'deposit':
            o = DepositMarket(co, code=s.get('code', 'DEP'), issuer_short_code=s['issuer'])
        elif k == 'plain':
            o = Sector(co, s['code'], has_F=True)
            for (v, e) in s.get('vars', []):
                o.AddVariable(v, '', e)
        else:
            raise ValueError(k)
        if s.get('own_taxrate') is not None:
            o.AddVariable('TaxRate', 'sector-level tax rate', repr(s['own_taxrate']))
        objs[(c['code'], s.get('code', k.upper()))] = o
    for (o, cc, tcode) in pending_cb:
        o.Treasury = objs[(cc, tcode)]
    for c in program['countries']:
        if c.get('variant') == 'pc':
            hh = objs[(c['code'], c['hh'])]
            hh.AddVariable('L0', '', '0.635')
            deps = [o for (cc, code), o in objs.items() if cc == c['code'] and isinstance(o, DepositMarket)]
            if len(deps) > 1:
                # two interest-bearing assets besides money: the residual weight is 1 - L0 - L1
                hh.AddVariable('L1', '', '0.2')
                hh.GenerateAssetWeighting({'DEP': 'L0', 'BOND': 'L1'}, 'MON')
            else:
                hh.GenerateAssetWeighting({'DEP': 'L0'}, 'MON')
            for dep in deps:
                dep.SetExogenous('r', '[0.025]*60')
        for (scode, var, val) in c.get('exo', []):
            if var not in objs[(c['code'], scode)].GetVariables():
                # (the government classes take no good-name parameter: a renamed good is demanded through a user-declared variable)
                objs[(c['code'], scode)].AddVariable(var, 'user-declared demand', '0.0')
            objs[(c['code'], scode)].SetExogenous(var, val)
    for f in program.get('flows', []):
        (sc, ss, dc, ds, var, expr) = f[:6]
        income = bool(f[6]) if len(f) > 6 else False
        src, dst = objs[(sc, ss)], objs[(dc, ds)]
        if var not in src.GetVariables():
            src.AddVariable(var, 'flow', expr)
        mod.RegisterCashFlow(src, dst, var, is_income_source=income, is_income_dest=income)
    for (cc, sc, var, expr, stock) in program.get('gold', []):
        sec = objs[(cc, sc)]
        sec.AddVariable(var, 'gold purchases', expr)
        mod.ExternalSector['GOLD'].SetGoldPurchases(sec, var, stock)
    for (mc, mcode, sc, scode, share) in program.get('suppliers', []):
        # the home business stays the residual supplier, the other one supplies a fixed share of demand
        market = objs[(mc, mcode)]
        home = [c for c in program['countries'] if c['code'] == mc][0]
        market.AddSupplier(objs[(mc, home['roles']['bus'])])
        market.AddSupplier(objs[(sc, scode)], '%r*%s' % (share, 'SUP_' + mcode))
    for (cur, path) in program.get('rates', []):
        mod.ExternalSector['XR'].SetExogenous(cur, path)
    mod.MaxTime = program.get('horizon', 6)
    mod.EquationSolver.MaxIterations = 800
    return mod, objs


def solve(program):
    mod, objs = build(program)
    mod.main()
    return mod, objs


def series(mod):
    return dict((k, list(v)) for k, v in mod.EquationSolver.TimeSeries.items())


# ---- whole-model checkers ------------------------------------------------------------------------------------------------
def close(a, b, tol=1e-5):
    return abs(a - b) <= tol * max(1.0, abs(a), abs(b))


def check_ledger(mod, program, tol=2e-4):
    """C01 / C07: per currency, sum of changes in F of all sectors of the zone + the FX intermediary's position in that currency = 0;
    FX net transactions valued in the numeraire sum to zero"""
    ts = mod.EquationSolver.TimeSeries
    T = mod.EquationSolver.Parser.MaxTime
    zones = {}
    for cz in mod.CurrencyZoneList:
        zones[cz.Currency] = [s for s in cz.GetSectors() if s.HasF]
    for cur, secs in zones.items():
        if cur == 'NUMERAIRE':
            continue
        for k in range(2, T + 1):
            tot = 0.0
            for s in secs:
                name = s.GetVariableName('F')
                tot += ts[name][k] - ts[name][k - 1]
            fxname = 'EXT_FX__NET_' + cur
            if fxname in ts:
                tot += ts[fxname][k]
            scale = max([1.0] + [abs(ts[s.GetVariableName('F')][k]) for s in secs])
            if abs(tot) > tol * scale:
                return 'currency %s, period %d: sum of changes in financial assets (+ FX position) = %r' % (cur, k, tot)
    if mod.ExternalSector is not None:
        for k in range(1, T + 1):
            tot = 0.0
            scale = 1.0
            for cz in mod.CurrencyZoneList:
                cur = cz.Currency
                n = 'EXT_FX__NET_' + cur
                if n in ts:
                    rate = ts['EXT_XR__' + cur][k]
                    tot += ts[n][k] * rate
                    scale = max(scale, abs(ts[n][k] * rate))
            if abs(tot) > tol * scale:
                return 'period %d: FX net transactions valued in the numeraire sum to %r' % (k, tot)
            if not program.get('gold') and 'EXT_FX__NET_NUMERAIRE' in ts and abs(ts['EXT_FX__NET_NUMERAIRE'][k]) > tol * scale:
                return 'period %d: numeraire position of the FX intermediary = %r' % (k, ts['EXT_FX__NET_NUMERAIRE'][k])
    return None


def check_markets(mod, program, tol=2e-4):
    """C04: demand = sum of declared demands in the zone, supply = demand, allocations add up to supply"""
    ts = mod.EquationSolver.TimeSeries
    T = mod.EquationSolver.Parser.MaxTime
    for s in mod.GetSectors():
        if not isinstance(s, Market) or isinstance(s, (MoneyMarket, DepositMarket)):
            continue
        code = s.Code
        dem, sup = s.GetVariableName('DEM_' + code), s.GetVariableName('SUP_' + code)
        for k in range(1, T + 1):
            tot = 0.0
            for o in s.CurrencyZone.GetSectors():
                if o.ID == s.ID:
                    continue
                nm = 'DEM_' + (code if o.Parent == s.Parent else s.FullCode)
                if nm in o.EquationBlock.Equations:
                    tot += ts[o.GetVariableName(nm)][k]
            if not close(ts[dem][k], tot, tol):
                return 'market %s period %d: total demand %r != sum of declared demands %r' % (s.FullCode, k, ts[dem][k], tot)
            if not close(ts[sup][k], ts[dem][k], tol):
                return 'market %s period %d: supply %r != demand %r' % (s.FullCode, k, ts[sup][k], ts[dem][k])
            alloc = sum(ts[s.GetVariableName(v)][k] for v in s.EquationBlock.Equations if v.startswith('SUP_') and v != 'SUP_' + code)
            if not close(alloc, ts[sup][k], tol):
                return 'market %s period %d: allocations %r do not add up to supply %r' % (s.FullCode, k, alloc, ts[sup][k])
    return None


PLACEHOLDER = re.compile(r'(?<![A-Za-z0-9])_[0-9]+__')
ALLOWED = set(['k', 't', 'max', 'min', 'abs', 'float', 'sum', 'pow', 'round', 'exp', 'log', 'sqrt'])


def check_closed(mod, program):
    """C05: canonical names, defined once, no placeholder, every right-hand-side name defined"""
    txt = mod.FinalEquations
    if PLACEHOLDER.search(txt):
        return 'placeholder survives in the final equations: %r' % PLACEHOLDER.search(txt).group(0)
    defined = {}
    rhs_names = set()
    for line in txt.split('\n'):
        code = line.split('#')[0].strip()
        if '=' not in code or code.lower().startswith('exogenous'):
            continue
        lhs, rhs = [x.strip() for x in code.split('=', 1)]
        lhs = lhs.replace('(0)', '')
        if lhs in ('MaxTime', 'Err_Tolerance'):
            continue
        if '(0)' not in code.split('=')[0]:
            defined[lhs] = defined.get(lhs, 0) + 1
        try:
            for tk in list_tokens(rhs):
                rhs_names.add(tk)
        except tokenize.TokenError:
            pass
    dup = [k for k, v in defined.items() if v > 1]
    if dup:
        return 'variables defined more than once: %r' % dup[:4]
    undefined = sorted(n for n in rhs_names if n not in defined and n not in ALLOWED)
    if undefined:
        return 'names used on a right-hand side but never defined: %r' % undefined[:5]
    for name in defined:
        if '__' not in name and name not in ('t',) and not any(name == g[0] for g in mod.GlobalVariables):
            return 'non-canonical variable name %r' % name
    return None
