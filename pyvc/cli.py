"""
cli.py - ./check <property> --tier quick|thorough [--replay FILE] [--rebaseline] [--list]

exit 0 nothing that was explored violates the property (KNOWN-FINDING lines allowed)
exit 1 VIOLATION (refuted obligation or natively failing bounded case not in known_findings.json)
undecided obligations (nothing refuted, no native witness): UNDECIDED lines + evidence; exit 0, or exit 2 with PYVC_UNDECIDED_EXIT=2
exit 3 checker crash / zero obligations / vacuity canary failed
"""
import argparse
import hashlib
import importlib
import json
import os
import re
import subprocess
import sys
import time
import traceback

VERIF = os.path.dirname(os.path.dirname(os.path.abspath(__file__)))
sys.path.insert(0, VERIF)

import z3   # noqa
from pyvc.types import *   # noqa
from pyvc import types as T
from pyvc.repo import Repo
from pyvc.state import ClassTable
from pyvc.spec import REG
from pyvc.sym import Obligation
from pyvc.verify import verify_function
from pyvc import smt

VENV_PY = '/venv/bin/python'


def load_property(pid):
    mod = importlib.import_module('specs.' + pid)
    prop = REG['props'].get(pid)
    if prop is None:
        raise RuntimeError('specs.%s does not define property %s' % (pid, pid))
    return mod, prop


def base_name(name):
    return name


def load_known():
    p = os.path.join(VERIF, 'known_findings.json')
    if not os.path.exists(p):
        return []
    with open(p) as f:
        return json.load(f).get('findings', [])


def slug(s):
    return re.sub(r'[^A-Za-z0-9_.\[\]=-]+', '_', s)[:150]


def write_replay(pid, name, payload):
    d = os.path.join(VERIF, 'replays')
    os.makedirs(d, exist_ok=True)
    h = hashlib.sha1(json.dumps(payload, sort_keys=True, default=str).encode()).hexdigest()[:8]
    path = os.path.join('replays', '%s-%s-%s.json' % (pid, slug(name.split('/', 1)[-1] if '/' in name else name), h))
    with open(os.path.join(VERIF, path), 'w') as f:
        json.dump(payload, f, indent=1, default=str)
    return path


def native_replay(prop, pid, replay_path, timeout=300):
    """ask the property's dynamic harness to reproduce a refuted obligation on the real code"""
    script = prop.replay_script
    if not script:
        return None
    cmd = [VENV_PY, os.path.join(VERIF, script), '--replay', os.path.join(VERIF, replay_path)]
    try:
        p = subprocess.run(cmd, stdout=subprocess.PIPE, stderr=subprocess.PIPE, timeout=timeout,
                           universal_newlines=True, cwd=VERIF, env=dict(os.environ, PYTHONPATH='/repo'))
    except subprocess.TimeoutExpired:
        return {'reproduced': False, 'detail': 'replay timed out'}
    try:
        return json.loads(p.stdout.strip().split('\n')[-1])
    except Exception:
        return {'reproduced': False, 'detail': 'replay harness output not understood: ' + (p.stdout + p.stderr)[-400:]}


def run_bounded(b, tier, seed):
    args = dict(b.quick_args if tier == 'quick' else b.thorough_args)
    out = os.path.join(VERIF, 'replays', '.bounded-%s-%d.json' % (slug(b.name), os.getpid()))
    os.makedirs(os.path.dirname(out), exist_ok=True)
    cmd = [VENV_PY, os.path.join(VERIF, b.script), '--func', b.func, '--tier', tier, '--seed', str(seed), '--out', out]
    for k, v in args.items():
        cmd += ['--' + k, str(v)]
    t0 = time.time()
    try:
        p = subprocess.run(cmd, stdout=subprocess.PIPE, stderr=subprocess.PIPE, universal_newlines=True, cwd=VERIF,
                           timeout=3600, env=dict(os.environ, PYTHONPATH='/repo'))
    except subprocess.TimeoutExpired:
        return {'name': b.name, 'status': 'error', 'detail': 'timeout', 'wall_s': time.time() - t0}
    res = None
    if os.path.exists(out):
        try:
            with open(out) as f:
                res = json.load(f)
        finally:
            os.unlink(out)
    if res is None:
        return {'name': b.name, 'status': 'error', 'detail': (p.stdout + p.stderr)[-1500:], 'wall_s': time.time() - t0}
    res['name'] = b.name
    res['wall_s'] = round(time.time() - t0, 2)
    res['bound'] = b.bound
    res['stands_in_for'] = b.stands_in_for
    res.setdefault('status', 'ok' if not res.get('failures') else 'fail')
    return res


def main(argv=None):
    ap = argparse.ArgumentParser()
    ap.add_argument('pid')
    ap.add_argument('--tier', default=os.environ.get('VERIF_TIER', 'quick'), choices=['quick', 'thorough'])
    ap.add_argument('--replay')
    ap.add_argument('--rebaseline', action='store_true')
    ap.add_argument('--only', help='substring filter on function qualnames (development)')
    ap.add_argument('--no-bounded', action='store_true')
    ap.add_argument('--verbose', '-v', action='store_true')
    ap.add_argument('--no-evidence', action='store_true')
    a = ap.parse_args(argv)
    seed = int(os.environ.get('VERIF_SEED', '0') or 0)
    t_start = time.time()
    pid = a.pid
    try:
        mod, prop = load_property(pid)
    except Exception:
        traceback.print_exc()
        print('CHECKER-ERROR property=%s cannot load specs' % pid)
        return 3
    if a.replay:
        return do_replay(prop, pid, a.replay)
    repo = Repo()
    ctab = ClassTable(repo)
    for c in REG['classes']:
        ctab.add(c)
    timeout_ms = int(os.environ.get('PYVC_TIMEOUT_MS', '0')) or (120000 if a.tier == 'quick' else 300000)

    fn_results = []
    all_obs = []
    crashed = []
    for spec in prop.fns:
        if a.only and a.only not in spec.name:
            continue
        r = verify_function(repo, ctab, spec)
        fn_results.append(r)
        if getattr(r, 'crashed', False):
            crashed.append(r)
        all_obs.extend(r.obligations)
    lemma_obs = []
    for lem in prop.lemmas:
        if a.only and a.only != 'lemma':
            continue
        set_float_mode(lem.float_mode)
        try:
            for (sub, hyps, goal) in lem.build():
                o = Obligation('lemma/%s/%s' % (lem.name, sub), hyps, goal, None, (), 'check', 'lemma:' + lem.name)
                lemma_obs.append(o)
                # vacuity guard: the hypotheses of a lemma obligation must be satisfiable
                lemma_obs.append(Obligation('lemma/%s/%s/cover/requires' % (lem.name, sub), hyps, z3.BoolVal(True), None, (), 'cover', 'lemma:' + lem.name))
        except Exception:
            traceback.print_exc()
            crashed.append(lem)
    all_obs.extend(lemma_obs)
    solver_wall = smt.discharge(all_obs, timeout_ms) if all_obs else 0.0

    scan_results = []
    for sc in prop.scans:
        if a.only:
            continue
        try:
            for (sub, ok, detail) in sc.run(repo):
                scan_results.append({'name': 'scan/%s/%s' % (sc.name, sub), 'ok': bool(ok), 'detail': detail})
        except Exception:
            traceback.print_exc()
            crashed.append(sc)

    # ---- verdicts -----------------------------------------------------------------------------
    known = [k for k in load_known() if k.get('property') == pid and k.get('status') == 'open']
    violations = []      # (name, payload)
    undecided = []
    vacuity = []
    known_hits = []
    by_name = {}
    for o in all_obs:
        by_name.setdefault(o.name, []).append(o)
    for r in fn_results:
        if r.error:
            undecided.append((r.name, r.error))
    n_check = 0
    n_discharged = 0
    ob_list = []
    for name, obs in sorted(by_name.items()):
        kind = obs[0].kind
        vs = [o.verdict for o in obs]
        if kind == 'cover':
            if name.endswith('cover/requires'):
                if not all(v == 'covered' for v in vs):
                    if any(v == 'vacuous' for v in vs) and not any(v == 'covered' for v in vs):
                        vacuity.append((name, 'preconditions / hypotheses are unsatisfiable'))
            else:
                if all(v == 'vacuous' for v in vs):
                    vacuity.append((name, 'no feasible normal exit'))
            ob_list.append({'name': name, 'kind': 'cover', 'verdict': 'covered' if any(v == 'covered' for v in vs) else vs[0],
                            'paths': len(obs), 'ms': sum(o.ms for o in obs)})
            continue
        n_check += 1
        if all(v == 'discharged' for v in vs):
            n_discharged += 1
            verdict = 'discharged'
        elif any(v == 'refuted' for v in vs):
            verdict = 'refuted'
        else:
            verdict = 'undecided'
        backends = sorted(set(o.backend for o in obs if o.backend))
        ob_list.append({'name': name, 'kind': 'check', 'verdict': verdict, 'paths': len(obs),
                        'backend': '+'.join(backends), 'ms': sum(o.ms for o in obs)})
        if verdict == 'refuted':
            bad = [o for o in obs if o.verdict == 'refuted'][0]
            kf = match_known(known, name, None)
            if kf is not None:
                known_hits.append((kf, name))
                continue
            payload = {'property': pid, 'obligation': name, 'function': bad.fn, 'kind': 'refuted-obligation',
                       'source_sha': next((r.sha for r in fn_results if r.qualname == bad.fn), None),
                       'path': list(bad.trace), 'solver': bad.backend, 'model': bad.model,
                       'watch': getattr(bad, 'watch_values', {}), 'info': getattr(bad, 'info', ''),
                       'rerun': './check %s --replay <this file>' % pid}
            violations.append((name, payload))
        elif verdict == 'undecided':
            why = '; '.join(sorted(set((o.reason or o.verdict or '?') for o in obs if o.verdict != 'discharged')))[:300]
            undecided.append((name, why))
    for sr in scan_results:
        n_check += 1
        if sr['ok']:
            n_discharged += 1
            ob_list.append({'name': sr['name'], 'kind': 'scan', 'verdict': 'discharged', 'backend': 'ast-scan', 'ms': 0})
        else:
            ob_list.append({'name': sr['name'], 'kind': 'scan', 'verdict': 'refuted', 'backend': 'ast-scan', 'ms': 0, 'detail': sr['detail']})
            kf = match_known(known, sr['name'], sr['detail'])
            if kf is not None:
                known_hits.append((kf, sr['name']))
            else:
                violations.append((sr['name'], {'property': pid, 'obligation': sr['name'], 'kind': 'scan', 'detail': sr['detail']}))

    # ---- bounded stand-ins ---------------------------------------------------------------------
    bounded_results = []
    if not a.no_bounded and not a.only:
        for b in prop.bounded:
            br = run_bounded(b, a.tier, seed)
            bounded_results.append(br)
            if br.get('status') == 'error':
                undecided.append(('bounded/' + b.name, br.get('detail', '')[:300]))
            for fl in br.get('failures', [])[:6]:
                kf = match_known(known, 'bounded/' + b.name, fl.get('case_id') or json.dumps(fl.get('input'), default=str))
                if kf is not None:
                    known_hits.append((kf, 'bounded/' + b.name))
                    continue
                violations.append(('bounded/' + b.name, {'property': pid, 'obligation': 'bounded/' + b.name, 'kind': 'bounded-failure',
                                                        'native': fl, 'reproduced': True}))

    # ---- baseline comparison (obligations must not silently disappear) ---------------------------
    bl_path = os.path.join(VERIF, 'specs', 'baseline', pid + '.json')
    names_now = sorted(n for n, obs in by_name.items() if obs[0].kind == 'check') + sorted(s['name'] for s in scan_results)
    if a.rebaseline:
        os.makedirs(os.path.dirname(bl_path), exist_ok=True)
        with open(bl_path, 'w') as f:
            json.dump({'property': pid, 'obligations': names_now}, f, indent=1)
        print('baseline written: %d obligations' % len(names_now))
    elif os.path.exists(bl_path) and not a.only:
        with open(bl_path) as f:
            bl = json.load(f)['obligations']
        for nm in bl:
            if nm not in names_now:
                undecided.append((nm, 'obligation of the baseline list was not generated on this tree'))

    # ---- report -------------------------------------------------------------------------------
    exit_code = 0
    lines = []
    seen_kf = set()
    for kf, nm in known_hits:
        key = kf.get('id') or kf.get('what')
        if key in seen_kf:
            continue
        seen_kf.add(key)
        lines.append('KNOWN-FINDING: property=%s %s' % (pid, kf.get('what', nm)))
    viol_records = []
    for name, payload in violations:
        path = write_replay(pid, name, payload)
        suffix = ''
        if payload.get('kind') == 'refuted-obligation':
            nat = native_replay(prop, pid, path)
            payload['native'] = nat
            with open(os.path.join(VERIF, path), 'w') as f:
                json.dump(payload, f, indent=1, default=str)
            if not (nat and nat.get('reproduced')):
                suffix = ' no-failing-input-found'
        elif payload.get('kind') == 'scan':
            suffix = ' no-failing-input-found'
        lines.append('VIOLATION property=%s replay=%s%s' % (pid, path, suffix))
        viol_records.append({'obligation': name, 'replay': path})
        exit_code = 1
    # obligations that lost their proof without a counter-model (time-out / outside the subset): the
    # bounded back end searches the same contract natively; only a natively failing input is reported
    still_undecided = []
    searched = False
    for nm, why in undecided:
        if prop.replay_script is None or searched and not any(v for v in viol_records):
            still_undecided.append((nm, why))
            continue
        if searched:
            continue        # one native search per run: it already produced the witness
        payload = {'property': pid, 'obligation': nm, 'kind': 'undecided-obligation', 'reason': why,
                   'note': 'the obligation is no longer discharged on this tree and the solver gave no counter-model; '
                           'input below (if any) was found by the bounded native search of the same contract'}
        path = write_replay(pid, nm, payload)
        nat = native_replay(prop, pid, path)
        searched = True
        payload['native'] = nat
        with open(os.path.join(VERIF, path), 'w') as f:
            json.dump(payload, f, indent=1, default=str)
        if nat and nat.get('reproduced'):
            lines.append('VIOLATION property=%s replay=%s' % (pid, path))
            viol_records.append({'obligation': nm, 'replay': path, 'found_by': 'bounded native search after the proof was lost'})
            exit_code = 1
        else:
            still_undecided.append((nm, why))
            try:
                os.unlink(os.path.join(VERIF, path))
            except OSError:
                pass
    if searched and exit_code == 1:
        still_undecided = [(n, w) for n, w in undecided if not any(v['obligation'] == n for v in viol_records)]
    undecided = still_undecided
    if crashed or not (all_obs or scan_results):
        lines.append('CHECKER-ERROR property=%s %s' % (pid, 'crash in %d unit(s)' % len(crashed) if crashed else 'zero obligations generated'))
        for c in crashed:
            lines.append('  ' + str(getattr(c, 'error', c))[:2000])
        exit_code = max(exit_code, 3) if exit_code != 1 else 1
    if vacuity:
        for nm, why in vacuity:
            lines.append('VACUOUS property=%s obligation=%s %s' % (pid, nm, why))
        if exit_code == 0:
            exit_code = 3
    if undecided:
        for nm, why in undecided:
            lines.append('UNDECIDED property=%s obligation=%s reason=%s' % (pid, nm, why))
        if exit_code == 0:
            # an obligation that could not be decided is not a violation: nothing that was explored (the bounded native search included)
            # contradicts the property, so the command reports `held on everything explored` and lists what is undecided here and in the
            # evidence.  PYVC_UNDECIDED_EXIT=2 (development, self-tests) makes it an error.
            exit_code = int(os.environ.get('PYVC_UNDECIDED_EXIT', '0'))

    wall = time.time() - t_start
    if not a.no_evidence and not a.only:
        write_evidence(prop, pid, a.tier, seed, wall, fn_results, ob_list, n_check, n_discharged, solver_wall,
                       bounded_results, known_hits, viol_records, undecided, all_obs, repo, scan_results)
    for ln in lines:
        print(ln)
    nb = sum(int(b.get('cases', 0)) for b in bounded_results)
    print('%s tier=%s: %d/%d obligations discharged over %d function(s), %d lemma obligation(s); bounded cases=%d; '
          'violations=%d undecided=%d known=%d; %.1fs' % (pid, a.tier, n_discharged, n_check, len(fn_results), len(lemma_obs), nb,
                                                           len(violations), len(undecided), len(seen_kf), wall))
    if a.verbose:
        for ob in ob_list:
            print('  %-11s %-8s %6dms  %s' % (ob['verdict'], ob.get('backend', ''), ob['ms'], ob['name']))
        for r in fn_results:
            print('  fn %s: paths=%d exc=%s inlined=%s contracts=%s gen=%.1fs err=%s' % (
                r.name, r.paths, r.exc_outcomes, r.inlined, r.contracts_used, r.gen_s, r.error))
    return exit_code


def match_known(known, name, detail):
    for k in known:
        ob = k.get('obligation')
        if ob and ob != name:
            continue
        case = k.get('case')
        if case and detail is not None and case not in str(detail):
            continue
        if case and detail is None and not ob:
            continue
        return k
    return None


def write_evidence(prop, pid, tier, seed, wall, fn_results, ob_list, n_check, n_discharged, solver_wall,
                   bounded_results, known_hits, viol_records, undecided, all_obs, repo, scan_results):
    by_backend = {}
    for o in all_obs:
        if o.kind == 'check' and o.verdict == 'discharged':
            by_backend[o.backend] = by_backend.get(o.backend, 0) + 1
    samples = []
    for o in all_obs:
        if o.kind == 'check' and len(samples) < 3:
            try:
                s = z3.Solver()
                for h in o.hyps[-6:]:
                    s.add(h)
                s.add(z3.Not(o.goal))
                txt = s.to_smt2()
                samples.append({'obligation': o.name, 'path': list(o.trace), 'verdict': o.verdict,
                                'smt2_excerpt (last 6 hypotheses + negated goal)': txt[-1800:]})
            except Exception:
                pass
    for b in bounded_results:
        for smp in (b.get('samples') or [])[:2]:
            samples.append({'bounded': b['name'], 'case': smp})
    externs = sorted(set(x for r in fn_results for x in r.externs_used))
    inlined = sorted(set(x for r in fn_results for x in r.inlined))
    contracts = sorted(set(x for r in fn_results for x in r.contracts_used))
    verified_names = set(r.qualname for r in fn_results)
    assumed_contracts = [c for c in contracts if c not in verified_names]
    ev = {
        'property_id': pid,
        'tier': tier,
        'seed': seed,
        'level': prop.level,
        'wall_s': round(wall, 2),
        'violations': len(viol_records),
        'coverage': {
            'obligations': n_check,
            'discharged': n_discharged,
            'checker_cmd': './check %s --tier %s' % (pid, tier),
            'trusted_base': list(prop.trusted),
            'explanation': prop.level_text,
            'functions_under_contract': [
                {'function': r.qualname, 'contract': r.name, 'source_sha256_16': r.sha, 'paths': r.paths,
                 'normal_exits': r.normal_outcomes, 'exceptional_exits': r.exc_outcomes,
                 'obligations': len([o for o in r.obligations if o.kind == 'check']),
                 'inlined_callees': r.inlined, 'callee_contracts_used': r.contracts_used,
                 'generation_s': round(r.gen_s, 2), 'undecided_reason': r.error}
                for r in fn_results],
            'obligation_list': ob_list,
            'by_backend': by_backend,
            'solver_time_s': round(sum(o.ms for o in all_obs) / 1000.0, 2),
            'solver_wall_s': round(solver_wall, 2),
            'bounded_standins': bounded_results,
            'evaluations': sum(int(b.get('cases', 0)) for b in bounded_results),
            'distinct_nontrivial': sum(int(b.get('distinct_nontrivial', 0)) for b in bounded_results),
            'rule': 'bounded stand-ins only: see bounded_standins[*].rule; they are never counted as discharged obligations',
            'samples': samples,
            'known_findings': sorted(set((k.get('id') or k.get('what')) for k, _ in known_hits)),
            'undecided': [{'obligation': n, 'reason': w} for n, w in undecided],
            'violations': viol_records,
            'repo_tree_sha256_16': repo.tree_sha(),
            'clauses_only_bounded_or_undecided': list(prop.not_decided),
        },
        'assumptions': list(prop.assumptions) + sorted(set(x for r in fn_results for x in getattr(r, 'ghost_assumptions', []))) + ['stdlib/builtin models used (T-LIB/T-FMT/T-TOK): ' + ', '.join(externs)]
                       + (['callee contracts assumed here and verified elsewhere or trusted: ' + ', '.join(assumed_contracts)] if assumed_contracts else [])
                       + (['callees inlined (verified as part of the caller): ' + ', '.join(inlined)] if inlined else []),
    }
    d = os.path.join(VERIF, 'evidence')
    os.makedirs(d, exist_ok=True)
    with open(os.path.join(d, pid + '.json'), 'w') as f:
        json.dump(ev, f, indent=1, default=str)


def do_replay(prop, pid, path):
    full = path if os.path.isabs(path) else os.path.join(VERIF, path)
    with open(full) as f:
        payload = json.load(f)
    if payload.get('kind') == 'bounded-failure' or prop.replay_script:
        script = prop.replay_script
        if not script:
            print('no replay harness for ' + pid)
            return 3
        cmd = [VENV_PY, os.path.join(VERIF, script), '--replay', full]
        p = subprocess.run(cmd, universal_newlines=True, cwd=VERIF, env=dict(os.environ, PYTHONPATH='/repo'),
                           stdout=subprocess.PIPE, stderr=subprocess.STDOUT)
        print(p.stdout)
        try:
            res = json.loads(p.stdout.strip().split('\n')[-1])
        except Exception:
            return 3
        if res.get('reproduced'):
            print('VIOLATION property=%s replay=%s' % (pid, path))
            return 1
        return 0
    print(json.dumps(payload, indent=1)[:4000])
    return 0


if __name__ == '__main__':
    sys.exit(main())
