"""
externs.py - assumed contracts of builtins / stdlib (trusted base T-LIB, T-FMT, T-TOK).

Signature of a function model:   f(engine, node, pos, kws, st, k)
Signature of a method model:     f(engine, node, obj, pos, kws, st, k)
Every use is recorded in engine.externs_used and ends up in the evidence.
"""
import ast
import z3
from .types import *
from . import ops
from .state import arr, ExcV


EXTRA = []      # install hooks registered by spec modules (models of eval etc.)


def lazy(f):
    f.lazy = True
    return f


def fresh_str(base='s'):
    return SV(STR, z3.String(fresh_name(base)))


def install(E):
    X = E.externs
    M = E.method_externs

    # ---- numbers --------------------------------------------------------------------------
    def b_len(e, n, pos, kws, st, k):
        x = pos[0]
        if x.ty.kind == 'str':
            return k(st, SV(INT, z3.Length(x.t)))
        if x.ty.kind == 'list':
            return k(st, SV(INT, st.list_len(x)))
        if x.ty.kind == 'tup':
            return k(st, mk_int(len(x.ty.args)))
        if x.ty.kind == 'dict' or (x.ty.kind == 'ref' and e.ctab.dict_kv(x.ty.args[0])):
            return k(st, SV(INT, st.list_len(st.dict_keylist(x))))
        raise Unsupported('len of ' + str(x.ty))
    X['len'] = b_len

    def b_abs(e, n, pos, kws, st, k):
        if pos[0].ty.kind == 'any':
            return e.call_extern('any_abs', n, pos, kws, st, k)
        return k(st, ops.absval(pos[0]))
    X['abs'] = b_abs

    def b_max(e, n, pos, kws, st, k):
        if len(pos) == 1 and pos[0].ty.kind == 'list':
            return e.call_extern('max_list', n, pos, kws, st, k)
        if any(p.ty.kind == 'any' for p in pos):
            return e.call_extern('any_max', n, pos, kws, st, k)
        r = pos[0]
        for p in pos[1:]:
            r = ops.py_max2(r, p)
        return k(st, r)
    X['max'] = b_max

    def b_min(e, n, pos, kws, st, k):
        if len(pos) == 1 and pos[0].ty.kind == 'list':
            return e.call_extern('min_list', n, pos, kws, st, k)
        r = pos[0]
        for p in pos[1:]:
            r = ops.py_min2(r, p)
        return k(st, r)
    X['min'] = b_min

    def min_list(e, n, pos, kws, st, k):
        lst = pos[0]
        ety = lst.ty.args[0]
        if ety.kind != 'int':
            raise Unsupported('min of list of ' + str(ety))
        ln = st.list_len(lst)
        def nonempty(s):
            m = z3.Int(fresh_name('min'))
            j = z3.Int(fresh_name('j'))
            w = z3.Int(fresh_name('w'))
            el = s.list_elems(lst)
            s.assume(forall([j], z3.Implies(z3.And(0 <= j, j < ln), m <= z3.Select(el, j)), patterns=[z3.Select(el, j)]),
                     z3.And(0 <= w, w < ln, z3.Select(el, w) == m))
            k(s, SV(INT, m))
        e.branch(st, ln > 0, nonempty, lambda s: e.raise_(s, 'ValueError', 'min() of empty list'), note='min')
    X['min_list'] = min_list

    def max_list(e, n, pos, kws, st, k):
        lst = pos[0]
        ety = lst.ty.args[0]
        if ety.kind != 'int':
            raise Unsupported('max of list of ' + str(ety))
        ln = st.list_len(lst)
        def nonempty(s):
            m = z3.Int(fresh_name('max'))
            j = z3.Int(fresh_name('j'))
            w = z3.Int(fresh_name('w'))
            el = s.list_elems(lst)
            s.assume(forall([j], z3.Implies(z3.And(0 <= j, j < ln), m >= z3.Select(el, j)), patterns=[z3.Select(el, j)]),
                     z3.And(0 <= w, w < ln, z3.Select(el, w) == m))
            k(s, SV(INT, m))
        e.branch(st, ln > 0, nonempty, lambda s: e.raise_(s, 'ValueError', 'max() of empty list'), note='max')
    X['max_list'] = max_list

    ParseFloatOk = z3.Function('py_float_ok', z3.StringSort(), z3.BoolSort())

    def b_float(e, n, pos, kws, st, k):
        x = pos[0]
        if x.ty.kind in ('int', 'float', 'bool'):
            return k(st, ops.to_float(x))
        if x.ty.kind == 'str':
            sx = z3.simplify(x.t)
            if z3.is_string_value(sx) and sx.as_string().strip().lower() in ('inf', '+inf', '-inf', 'infinity', '-infinity', 'nan'):
                return k(st, mk_float(float(sx.as_string())))      # the special literals
            return e.call_extern('float_of_str', n, pos, kws, st, k)
        if x.ty.kind == 'any':
            return e.call_extern('float_of_any', n, pos, kws, st, k)
        raise Unsupported('float(%s)' % x.ty)
    X['float'] = b_float

    E.ParseFloatOk = ParseFloatOk

    def float_of_str(e, n, pos, kws, st, k):
        s_ = pos[0]
        okc = ParseFloatOk(s_.t)
        def good(s):
            f = z3.Function('py_float_val', z3.StringSort(), sort_of(FLOAT))
            v = SV(FLOAT, f(s_.t))
            s.assume_wf(v)
            k(s, v)
        e.branch(st, okc, good, lambda s: e.raise_(s, 'ValueError', 'float()'), note='float@%s' % getattr(n, 'lineno', '?'))
    X['float_of_str'] = float_of_str

    def float_of_any(e, n, pos, kws, st, k):
        """float(x) for a dynamically typed x (str / float / int): a function of x, or ValueError / TypeError"""
        x = pos[0]
        okf = z3.Function('py_float_any_ok', ANYV, z3.BoolSort())
        valf = z3.Function('py_float_any_val_' + sortkey(FLOAT), ANYV, sort_of(FLOAT))
        def good(s):
            v = SV(FLOAT, valf(x.t))
            s.assume_wf(v)
            k(s, v)
        e.branch(st, okf(x.t), good, lambda s: e.raise_(s, 'ValueError', 'float()'), note='floatany@%s' % getattr(n, 'lineno', '?'))
    X['float_of_any'] = float_of_any

    ParseIntOk = z3.Function('py_int_ok', z3.StringSort(), z3.BoolSort())
    ParseIntVal = z3.Function('py_int_val', z3.StringSort(), z3.IntSort())

    def b_int(e, n, pos, kws, st, k):
        x = pos[0]
        if x.ty.kind in ('int', 'bool'):
            return k(st, ops.to_int(x))
        if x.ty.kind == 'str':
            okc = ParseIntOk(x.t)
            return e.branch(st, okc, lambda s: k(s, SV(INT, ParseIntVal(x.t))),
                            lambda s: e.raise_(s, 'ValueError', 'int()'), note='int@%s' % getattr(n, 'lineno', '?'))
        raise Unsupported('int(%s)' % x.ty)
    X['int'] = b_int

    # ---- strings --------------------------------------------------------------------------
    StrOfInt = z3.Function('py_str_int', z3.IntSort(), z3.StringSort())

    def b_str(e, n, pos, kws, st, k):
        if not pos:
            return k(st, mk_str(''))
        x = pos[0]
        if x.ty.kind == 'str':
            return k(st, x)
        if x.ty.kind == 'int':
            return k(st, SV(STR, z3.IntToStr(x.t)) if False else SV(STR, StrOfInt(x.t)))
        if x.ty.kind == 'float':
            f = z3.Function('py_str_float_' + sortkey(FLOAT), sort_of(FLOAT), z3.StringSort())
            return k(st, SV(STR, f(x.t)))
        if x.ty.kind == 'ref':
            fi = e.repo.find_method(x.ty.args[0], '__str__')
            if fi is not None:
                return e.call_repo(fi, [x], {}, st, k, n)
        # exceptions, types, anything else: some string
        return k(st, fresh_str('str'))
    X['str'] = b_str
    def b_repr(e, n, pos, kws, st, k):
        x = pos[0]
        if x.ty.kind == 'float':
            # T-LIB: repr of a float is the shortest text that reads back as exactly that float
            rf = z3.Function('py_repr_float', sort_of(FLOAT), z3.StringSort())
            fv = z3.Function('py_float_val', z3.StringSort(), sort_of(FLOAT))
            r = rf(x.t)
            st.assume(ParseFloatOk(r), fv(r) == x.t)
            return k(st, SV(STR, r))
        return k(st, fresh_str('repr'))
    X['repr'] = b_repr

    def str_mod(e, n, pos, kws, st, k):
        # '%...' % (x,) : a function of the format string and the argument value (T-FMT)
        fmt, arg = pos
        if arg.ty.kind == 'tup' and len(arg.ty.args) == 1:
            x = (arg.items if arg.items is not None else unpack(arg.ty, arg.t).items)[0]
            if x.ty.kind in ('float', 'int', 'str'):
                r = e.fmt_fn(x.ty)(fmt.t, x.t)
                f0 = z3.simplify(fmt.t)
                import re as _re
                if x.ty.kind == 'float' and z3.is_string_value(f0) and _re.fullmatch(r'%[0-9]*\.?[0-9]*[fFeEgG]', f0.as_string()):
                    # T-FMT: a single float conversion renders text that float() accepts
                    st.assume(ParseFloatOk(r))
                return k(st, SV(STR, r))
        return k(st, fresh_str('fmt'))
    X['str_mod'] = str_mod

    def str_mul(e, n, pos, kws, st, k):
        return k(st, fresh_str('rep'))
    X['str_mul'] = str_mul

    def m_format(e, n, o, pos, kws, st, k):
        """'...{0}...{1}...'.format(a, b) for a constant template with positional fields only: the concatenation of the literal
        pieces and str() of the arguments (T-FMT); anything else: some string"""
        tmpl = z3.simplify(o.t)
        if z3.is_string_value(tmpl) and not kws:
            import re as _re
            txt = tmpl.as_string()
            parts = _re.split(r'\{(\d*)\}', txt)
            if '{' not in ''.join(parts[0::2]) and '}' not in ''.join(parts[0::2]):
                pieces = []
                auto = 0
                ok = True
                for i, p_ in enumerate(parts):
                    if i % 2 == 0:
                        if p_:
                            pieces.append(z3.StringVal(p_))
                    else:
                        idx = int(p_) if p_ != '' else auto
                        auto += 1
                        if idx >= len(pos):
                            ok = False
                            break
                        a = pos[idx]
                        if a.ty.kind == 'str':
                            pieces.append(a.t)
                        elif a.ty.kind == 'int':
                            pieces.append(StrOfInt(a.t))
                        else:
                            ok = False
                            break
                if ok:
                    if not pieces:
                        return k(st, mk_str(''))
                    return k(st, SV(STR, z3.Concat(*pieces) if len(pieces) > 1 else pieces[0]))
        return k(st, fresh_str('format'))
    M[('str', 'format')] = m_format

    def m_strip(e, n, o, pos, kws, st, k):
        if pos:
            raise Unsupported('strip(chars)')
        st.assume(*ops.strip_facts(o.t))
        return k(st, SV(STR, ops.Strip(o.t)))
    M[('str', 'strip')] = m_strip

    def m_replace(e, n, o, pos, kws, st, k):
        a, b = pos[0], pos[1]
        st.assume(*ops.replace_all_facts(o.t, a.t, b.t))
        return k(st, SV(STR, ops.ReplaceAll(o.t, a.t, b.t)))
    M[('str', 'replace')] = m_replace

    M[('str', 'startswith')] = lambda e, n, o, pos, kws, st, k: k(st, mk_bool(z3.PrefixOf(pos[0].t, o.t)))
    M[('str', 'endswith')] = lambda e, n, o, pos, kws, st, k: k(st, mk_bool(z3.SuffixOf(pos[0].t, o.t)))
    M[('str', 'find')] = lambda e, n, o, pos, kws, st, k: k(st, SV(INT, z3.IndexOf(o.t, pos[0].t, 0)))

    def m_split(e, n, o, pos, kws, st, k):
        # T-LIB: s.split(sep) for a non-empty separator: a fresh list of >= 1 pieces, none containing sep; one piece iff sep does not occur;
        # the pieces joined by sep give s back; two pieces a, b: s == a + sep + b
        if len(pos) != 1 or pos[0].ty.kind != 'str':
            raise Unsupported('split without an explicit separator')
        sep = pos[0].t
        cnt = z3.Int(fresh_name('nsplit'))
        lst = st.new_list_sym(STR, cnt)
        el = st.list_elems(lst)
        j = z3.Int(fresh_name('j'))
        J = e.join_fn()
        st.assume(z3.Length(sep) > 0, cnt >= 1,
                  (cnt == 1) == z3.Not(z3.Contains(o.t, sep)),
                  z3.Implies(cnt == 1, z3.Select(el, 0) == o.t),
                  z3.Implies(cnt == 2, o.t == z3.Concat(z3.Select(el, 0), sep, z3.Select(el, 1))),
                  forall([j], z3.Implies(z3.And(0 <= j, j < cnt), z3.Not(z3.Contains(z3.Select(el, j), sep))), patterns=[z3.Select(el, j)]),
                  J(sep, el, cnt) == o.t)
        return k(st, lst)
    M[('str', 'split')] = m_split

    def m_lower(e, n, o, pos, kws, st, k):
        return k(st, SV(STR, ops.Lower(o.t)))
    M[('str', 'lower')] = m_lower

    def m_join(e, n, o, pos, kws, st, k):
        lst = pos[0]
        if lst.ty.kind != 'list' or lst.ty.args[0].kind != 'str':
            raise Unsupported('join of ' + str(lst.ty))
        J = e.join_fn()
        return k(st, SV(STR, J(o.t, st.list_elems(lst), st.list_len(lst))))
    M[('str', 'join')] = m_join

    def fmt_fn(ty):
        return z3.Function('py_fmt_' + sortkey(ty), z3.StringSort(), sort_of(ty), z3.StringSort())
    E.fmt_fn = fmt_fn

    def join_fn():
        return z3.Function('py_join', z3.StringSort(), arr(z3.IntSort(), z3.StringSort()), z3.IntSort(), z3.StringSort())
    E.join_fn = join_fn

    # ---- lists ----------------------------------------------------------------------------
    def m_append(e, n, o, pos, kws, st, k):
        st.list_append(o, pos[0])
        return k(st, NONE_V)
    M[('list', 'append')] = m_append

    def m_extend(e, n, o, pos, kws, st, k):
        b = pos[0]
        if b.ty.kind != 'list':
            raise Unsupported('extend with ' + str(b.ty))
        if sortkey(b.ty.args[0]) != sortkey(o.ty.args[0]):
            raise Unsupported('extend with a list of another element type')
        na, nb = st.list_len(o), st.list_len(b)
        ea, eb = st.list_elems(o), st.list_elems(b)
        er = z3.Const(fresh_name('ext'), ea.sort())
        j = z3.Int(fresh_name('j'))
        st.assume(forall([j], z3.Implies(z3.And(0 <= j, j < na), z3.Select(er, j) == z3.Select(ea, j)), patterns=[z3.Select(er, j)]),
                  forall([j], z3.Implies(z3.And(na <= j, j < na + nb), z3.Select(er, j) == z3.Select(eb, j - na)), patterns=[z3.Select(er, j)]),
                  forall([j], z3.Implies(z3.And(0 <= j, j < nb), z3.Select(eb, j) == z3.Select(er, j + na)), patterns=[z3.Select(eb, j)]),
                  forall([j], z3.Implies(z3.And(0 <= j, j < na), z3.Select(ea, j) == z3.Select(er, j)), patterns=[z3.Select(ea, j)]))
        st.list_set_elems(o, er, na + nb)
        return k(st, NONE_V)
    M[('list', 'extend')] = m_extend

    def m_remove(e, n, o, pos, kws, st, k):
        x = pos[0]
        ln = st.list_len(o)
        el = st.list_elems(o)
        ety = o.ty.args[0]
        p = z3.Int(fresh_name('pos'))
        j = z3.Int(fresh_name('j'))
        present = z3.Exists([j], z3.And(0 <= j, j < ln, ops.py_eq(unpack(ety, z3.Select(el, j)), x)))
        def good(s):
            s.assume(0 <= p, p < ln, ops.py_eq(unpack(ety, z3.Select(el, p)), x),
                     forall([j], z3.Implies(z3.And(0 <= j, j < p), z3.Not(ops.py_eq(unpack(ety, z3.Select(el, j)), x))),
                               patterns=[z3.Select(el, j)]))
            er = z3.Const(fresh_name('rm'), el.sort())
            s.assume(forall([j], z3.Implies(z3.And(0 <= j, j < p), z3.Select(er, j) == z3.Select(el, j)), patterns=[z3.Select(er, j)]),
                     forall([j], z3.Implies(z3.And(p <= j, j < ln - 1), z3.Select(er, j) == z3.Select(el, j + 1)), patterns=[z3.Select(er, j)]),
                     forall([j], z3.Implies(z3.And(0 <= j, j < p), z3.Select(el, j) == z3.Select(er, j)), patterns=[z3.Select(el, j)]),
                     forall([j], z3.Implies(z3.And(p < j, j < ln), z3.Select(el, j) == z3.Select(er, j - 1)), patterns=[z3.Select(el, j)]))
            s.list_set_elems(o, er, ln - 1)
            s.ghost = dict(s.ghost)
            s.ghost['_removed_at'] = SV(INT, p)
            k(s, NONE_V)
        e.branch(st, present, good, lambda s: e.raise_(s, 'ValueError', 'list.remove'), note='remove@%s' % getattr(n, 'lineno', '?'))
    M[('list', 'remove')] = m_remove

    def m_pop(e, n, o, pos, kws, st, k):
        ln = st.list_len(o)
        el = st.list_elems(o)
        ety = o.ty.args[0]
        if not pos:
            def good(s):
                v = unpack(ety, z3.Select(el, ln - 1))
                s.list_set_elems(o, el, ln - 1)
                k(s, v)
            return e.branch(st, ln > 0, good, lambda s: e.raise_(s, 'IndexError', 'pop from empty list'), note='pop')
        idx = pos[0].t
        if not (z3.is_int_value(idx) and idx.as_long() == 0):
            raise Unsupported('pop(i) for i != 0')
        def good0(s):
            v = unpack(ety, z3.Select(el, 0))
            er = z3.Const(fresh_name('pop'), el.sort())
            j = z3.Int(fresh_name('j'))
            s.assume(forall([j], z3.Implies(z3.And(0 <= j, j < ln - 1), z3.Select(er, j) == z3.Select(el, j + 1)), patterns=[z3.Select(er, j)]))
            s.list_set_elems(o, er, ln - 1)
            k(s, v)
        return e.branch(st, ln > 0, good0, lambda s: e.raise_(s, 'IndexError', 'pop from empty list'), note='pop0')
    M[('list', 'pop')] = m_pop

    def sorted_perm_facts(st, el, er, ln, ety):
        """er[0..ln) is a sorted permutation of el[0..ln)  (T-LIB: list.sort)"""
        j = z3.Int(fresh_name('j'))
        i2 = z3.Int(fresh_name('i'))
        pi = z3.Function(fresh_name('perm'), z3.IntSort(), z3.IntSort())
        pinv = z3.Function(fresh_name('pinv'), z3.IntSort(), z3.IntSort())
        if ety.kind == 'str':
            le = lambda a, b: a <= b
        elif ety.kind == 'int':
            le = lambda a, b: a <= b
        else:
            raise Unsupported('sort of list of ' + str(ety))
        return [forall([j, i2], z3.Implies(z3.And(0 <= j, j <= i2, i2 < ln), le(z3.Select(er, j), z3.Select(er, i2))),
                          patterns=[z3.MultiPattern(z3.Select(er, j), z3.Select(er, i2))]),
                forall([j], z3.Implies(z3.And(0 <= j, j < ln),
                                          z3.And(0 <= pi(j), pi(j) < ln, pinv(pi(j)) == j, z3.Select(er, j) == z3.Select(el, pi(j)))),
                          patterns=[z3.Select(er, j)]),
                forall([j], z3.Implies(z3.And(0 <= j, j < ln),
                                          z3.And(0 <= pinv(j), pinv(j) < ln, pi(pinv(j)) == j, z3.Select(el, j) == z3.Select(er, pinv(j)))),
                          patterns=[z3.Select(el, j)])]
    E.sorted_perm_facts = sorted_perm_facts

    def m_sort(e, n, o, pos, kws, st, k):
        if pos or kws:
            raise Unsupported('sort with arguments')
        ln = st.list_len(o)
        el = st.list_elems(o)
        er = z3.Const(fresh_name('sorted'), el.sort())
        st.assume(*sorted_perm_facts(st, el, er, ln, o.ty.args[0]))
        st.list_set_elems(o, er, ln)
        return k(st, NONE_V)
    M[('list', 'sort')] = m_sort

    def m_reverse(e, n, o, pos, kws, st, k):
        ln = st.list_len(o)
        el = st.list_elems(o)
        er = z3.Const(fresh_name('rev'), el.sort())
        j = z3.Int(fresh_name('j'))
        st.assume(forall([j], z3.Implies(z3.And(0 <= j, j < ln), z3.Select(er, j) == z3.Select(el, ln - 1 - j)), patterns=[z3.Select(er, j)]))
        st.list_set_elems(o, er, ln)
        return k(st, NONE_V)
    M[('list', 'reverse')] = m_reverse

    def copy_list(st, src, ety=None):
        ety = ety or src.ty.args[0]
        ln = st.list_len(src)
        el = st.list_elems(src)
        return st.new_list_sym(ety, ln, el)
    E.copy_list = copy_list

    def b_list(e, n, pos, kws, st, k):
        if not pos:
            t = e.hint_type(n, 'empty_list')
            if t is None:
                raise Unsupported('type of list() not given')
            return k(st, st.new_list(t, []))
        x = pos[0]
        if x.ty.kind == 'list':
            return k(st, copy_list(st, x))
        if x.ty.kind == 'dict' or (x.ty.kind == 'ref' and e.ctab.dict_kv(x.ty.args[0])):
            st.assume(*st.dict_key_axioms(x))
            return k(st, copy_list(st, st.dict_keylist(x)))
        if x.ty.kind == 'tup':
            items = x.items if x.items is not None else unpack(x.ty, x.t).items
            return k(st, st.new_list(items[0].ty if items else ANY, items))
        if x.ty.kind == 'range':
            lo, hi = x.items
            m = z3.If(hi.t > lo.t, hi.t - lo.t, z3.IntVal(0))
            r = st.new_list_sym(INT, m)
            er = st.list_elems(r)
            j = z3.Int(fresh_name('j'))
            st.assume(forall([j], z3.Implies(z3.And(0 <= j, j < m), z3.Select(er, j) == lo.t + j), patterns=[z3.Select(er, j)]))
            return k(st, r)
        raise Unsupported('list(%s)' % x.ty)
    X['list'] = b_list

    def b_range(e, n, pos, kws, st, k):
        if len(pos) == 1:
            return k(st, SV(Ty('range'), None, [mk_int(0), pos[0]]))
        if len(pos) == 2:
            return k(st, SV(Ty('range'), None, [pos[0], pos[1]]))
        raise Unsupported('range with step')
    X['range'] = b_range

    def b_tuple(e, n, pos, kws, st, k):
        x = pos[0]
        if x.ty.kind == 'tup':
            return k(st, x)
        raise Unsupported('tuple(%s)' % x.ty)
    X['tuple'] = b_tuple

    def b_dict(e, n, pos, kws, st, k):
        if pos or kws:
            raise Unsupported('dict(...) with arguments')
        t = e.hint_type(n, 'empty_dict')
        if t is None:
            raise Unsupported('type of dict() at line %s is not given in the spec hints' % n.lineno)
        return k(st, st.new_dict(t.args[0], t.args[1]))
    X['dict'] = b_dict

    def dict_init(e, n, pos, kws, st, k):
        return k(st, NONE_V)     # dict.__init__(self): the object was allocated as an empty dict
    X['dict.__init__'] = dict_init

    # ---- dict methods ---------------------------------------------------------------------
    def m_keys(e, n, o, pos, kws, st, k):
        return k(st, o)          # iteration / membership / list() over the view behave as on the dict
    M[('dict', 'keys')] = m_keys

    def m_values(e, n, o, pos, kws, st, k):
        kty, vty = st.dict_types(o)
        st.assume(*st.dict_key_axioms(o))
        kl = st.dict_keylist(o)
        ln = st.list_len(kl)
        r = st.new_list_sym(vty, ln)
        er = st.list_elems(r)
        ek = st.list_elems(kl)
        j = z3.Int(fresh_name('j'))
        dv = z3.Select(st.heap[st._dv(kty, vty)], o.t)
        st.assume(forall([j], z3.Implies(z3.And(0 <= j, j < ln), z3.Select(er, j) == z3.Select(dv, z3.Select(ek, j))),
                            patterns=[z3.Select(er, j), z3.Select(ek, j)]))
        return k(st, r)
    M[('dict', 'values')] = m_values

    def m_items(e, n, o, pos, kws, st, k):
        kty, vty = st.dict_types(o)
        st.assume(*st.dict_key_axioms(o))
        kl = st.dict_keylist(o)
        ln = st.list_len(kl)
        tty = Tup(kty, vty)
        r = st.new_list_sym(tty, ln)
        er = st.list_elems(r)
        ek = st.list_elems(kl)
        j = z3.Int(fresh_name('j'))
        dv = z3.Select(st.heap[st._dv(kty, vty)], o.t)
        ts = sort_of(tty)
        st.assume(forall([j], z3.Implies(z3.And(0 <= j, j < ln),
                                            z3.Select(er, j) == ts.constructor(0)(z3.Select(ek, j), z3.Select(dv, z3.Select(ek, j)))),
                            patterns=[z3.Select(er, j), z3.Select(ek, j)]))
        return k(st, r)
    M[('dict', 'items')] = m_items

    # ---- types ----------------------------------------------------------------------------
    TYPE_TAGS = {'str': 1, 'float': 2, 'int': 3, 'list': 4, 'tuple': 5, 'dict': 6, 'bool': 7, 'NoneType': 8}
    E.TYPE_TAGS = TYPE_TAGS

    def type_tag_of_name(e, name):
        if name in TYPE_TAGS:
            return z3.IntVal(TYPE_TAGS[name])
        if name in e.repo.classes:
            return z3.IntVal(1000 + cls_tag(Ref(name)))
        raise Unsupported('type name ' + name)
    E.type_tag_of_name = type_tag_of_name

    def b_type(e, n, pos, kws, st, k):
        x = pos[0]
        kind = x.ty.kind
        m = {'str': 'str', 'float': 'float', 'int': 'int', 'list': 'list', 'tup': 'tuple', 'dict': 'dict', 'bool': 'bool', 'none': 'NoneType'}
        if kind in m:
            return k(st, SV(Ty('meta'), z3.IntVal(TYPE_TAGS[m[kind]])))
        if kind == 'ref':
            if x.meta and x.meta.get('exact'):
                return k(st, SV(Ty('meta'), z3.IntVal(1000 + cls_tag(x.ty))))
            st.H('tyof', arr(z3.IntSort(), z3.IntSort()))
            return k(st, SV(Ty('meta'), 1000 + z3.Select(st.heap['tyof'], x.t)))
        if kind == 'any':
            return e.call_extern('any_type', n, pos, kws, st, k)
        raise Unsupported('type(%s)' % x.ty)
    X['type'] = b_type

    for tname in ('str', 'float', 'int', 'list', 'tuple', 'dict', 'bool'):
        pass

    def b_isinstance(e, n, pos, kws, st, k):
        raise Unsupported('isinstance')
    X['isinstance'] = lazy(lambda e, n, pos, kws, st, k: isinstance_lazy(e, n, st, k))

    def isinstance_lazy(e, n, st, k):
        cn = n.args[1]
        if not isinstance(cn, ast.Name):
            raise Unsupported('isinstance with non-name class')
        def got(s, x):
            if x.ty.kind == 'ref' and cn.id in e.repo.classes:
                c = x.ty.args[0]
                if e.ctab.is_subclass(c, cn.id):
                    return k(s, mk_bool(True))
                if not e.ctab.is_subclass(cn.id, c):
                    return k(s, mk_bool(False))
                s.H('tyof', arr(z3.IntSort(), z3.IntSort()))
                tags = [cls_tag(Ref(sc)) for sc in e.repo.subclasses(cn.id)]
                t = z3.Select(s.heap['tyof'], x.t)
                return k(s, mk_bool(z3.Or(*[t == g for g in tags])))
            raise Unsupported('isinstance(%s, %s)' % (x.ty, cn.id))
        e.ev(n.args[0], st, got)

    # ---- misc -----------------------------------------------------------------------------
    def noop(e, n, pos, kws, st, k):
        return k(st, NONE_V)
    X['print'] = noop
    X['warnings.warn'] = noop
    X['Logger'] = noop           # contract of utils.Logger.__init__: no effect on model state (C17)

    def b_getattr(e, n, pos, kws, st, k):
        o, name = pos[0], pos[1]
        if o.ty.kind == 'ref':
            decl, ty = e.ctab.field_decl(o.ty.args[0], '_attrs')
            if decl is not None:
                d = st.get_field(o, '_attrs')
                has = st.dict_has(d, name)
                def good(s):
                    v = s.dict_get(d, name)
                    s.assume_wf(v)
                    k(s, v)
                return e.branch(st, has, good, lambda s: e.raise_(s, 'AttributeError', 'getattr'), note='getattr@%s' % n.lineno)
        raise Unsupported('getattr on ' + str(o.ty))
    X['getattr'] = b_getattr

    def deepcopy(e, n, pos, kws, st, k):
        raise Unsupported('copy.deepcopy needs a contract on the calling function (_GetCopy)')
    X['copy.deepcopy'] = deepcopy

    def listcomp(e, n, pos, kws, st, k):
        """[elt for x in L]  (no filter): fresh list, element-wise image; elt must be pure"""
        if len(n.generators) != 1:
            raise Unsupported('nested comprehension')
        g = n.generators[0]
        if g.ifs:
            return e.call_extern('listcomp_filter', n, pos, kws, st, k)
        def got(s, it):
            if it.ty.kind == 'tup':
                items = it.items if it.items is not None else unpack(it.ty, it.t).items
                # unrolled
                out = []
                def step(i, s2):
                    if i == len(items):
                        return k(s2, s2.new_list(out[0].ty if out else ANY, out))
                    saved = dict(s2.env)
                    def gotv(s3, v):
                        out.append(v)
                        s3.env = saved
                        step(i + 1, s3)
                    e.assign(g.target, items[i], s2, lambda s3: e.ev(n.elt, s3, gotv))
                return step(0, s)
            if it.ty.kind == 'dict' or (it.ty.kind == 'ref' and e.ctab.dict_kv(it.ty.args[0])):
                s.assume(*s.dict_key_axioms(it))
                it = s.dict_keylist(it)
            src_pat = None
            if it.ty.kind == 'range':
                lo, hi = it.items
                m = z3.If(hi.t > lo.t, hi.t - lo.t, z3.IntVal(0))
                elem_at = lambda s2, j: SV(INT, lo.t + j)
                ln = m
            elif it.ty.kind == 'list':
                ln = s.list_len(it)
                elem_at = lambda s2, j: s2.list_get(it, j)
                src_pat = lambda j: z3.Select(s.list_elems(it), j)
            else:
                raise Unsupported('comprehension over ' + str(it.ty))
            j = z3.Int(fresh_name('c'))
            probe = s.fork()
            probe.assume(0 <= j, j < ln)
            outs = []
            excs = []
            def exc_handler(s2, exc):
                excs.append((exc, s2))
            probe.ctl = probe.ctl.but(handler=exc_handler)
            n_pc = len(probe.pc)
            x = elem_at(probe, j)
            probe.assume_wf(x)
            e.assign(g.target, x, probe, lambda s2: e.ev(n.elt, s2, lambda s3, v: outs.append((s3, v))))
            if len(outs) != 1:
                raise Unsupported('comprehension element forks')
            s3, v = outs[0]
            ety = v.ty
            extra = s3.pc[n_pc:]
            # an element whose evaluation raises makes the whole comprehension raise: it raises E iff some element does
            # (the conditions come from the callee contracts; first failing element wins - only the exception class matters here)
            if excs:
                def run_normal(sn):
                    finish(sn)
                def chain(i, sc):
                    if i == len(excs):
                        return finish(sc)
                    exc, se = excs[i]
                    cond = z3.And(*se.pc[n_pc:]) if se.pc[n_pc:] else z3.BoolVal(True)
                    some = z3.Exists([j], z3.And(0 <= j, j < ln, cond))
                    e.branch(sc, some, lambda sr: e.raise_(sr, exc), lambda sk: chain(i + 1, sk), note='comp-raises@%s' % n.lineno)
                def finish(sf):
                    build(sf)
                def build(sf):
                    r = sf.new_list_sym(ety, ln)
                    er = sf.list_elems(r)
                    body = z3.And(z3.Select(er, j) == pack(v, ety), *[c for c in extra])
                    guard = z3.And(0 <= j, j < ln)
                    pats = [z3.Select(er, j)] + ([src_pat(j)] if src_pat is not None else [])
                    sf.assume(forall([j], z3.Implies(guard, body), patterns=pats))
                    k(sf, r)
                return chain(0, s)
            r = s.new_list_sym(ety, ln)
            er = s.list_elems(r)
            body = z3.And(z3.Select(er, j) == pack(v, ety), *[c for c in extra])
            guard = z3.And(0 <= j, j < ln)
            pats = [z3.Select(er, j)] + ([src_pat(j)] if src_pat is not None else [])
            s.assume(forall([j], z3.Implies(guard, body), patterns=pats))
            k(s, r)
        e.ev(g.iter, st, got)
    X['listcomp'] = listcomp


def install_tokenize(E):
    """T-TOK: tokenize.tokenize(BytesIO(s.encode('utf-8')).readline) yields a finite sequence of 5-tuples whose
    (type, string) components are functions of s; it may raise TokenError instead.  untokenize(list of 2-tuples).decode()
    is a function of the (type, string) sequence."""
    X = E.externs
    M = E.method_externs
    StrS = z3.StringSort()
    IntS = z3.IntSort()
    TokLen = z3.Function('tok_len', StrS, IntS)
    TokNum = z3.Function('tok_num', StrS, IntS, IntS)
    TokVal = z3.Function('tok_val', StrS, IntS, StrS)
    TokOk = z3.Function('tok_ok', StrS, z3.BoolSort())
    E.tok = (TokLen, TokNum, TokVal, TokOk)
    TOK5 = Tup(INT, STR, INT, INT, INT)
    PAIR = Tup(INT, STR)
    Untok = z3.Function('py_untokenize', z3.ArraySort(IntS, sort_of(PAIR)), IntS, StrS)
    E.untok = Untok

    def tok_call(e, n, pos, kws, st, k):
        a = n.args[0] if n.args else None
        src = None
        # BytesIO(<s>.encode('utf-8')).readline
        if (isinstance(a, ast.Attribute) and a.attr == 'readline' and isinstance(a.value, ast.Call) and a.value.args
                and isinstance(a.value.args[0], ast.Call) and isinstance(a.value.args[0].func, ast.Attribute)
                and a.value.args[0].func.attr == 'encode'):
            src = a.value.args[0].func.value
        if src is None:
            raise Unsupported('tokenize.tokenize on something else than BytesIO(s.encode(..)).readline')
        def got(s, sv_):
            if sv_.ty.kind != 'str':
                raise Unsupported('tokenize of ' + str(sv_.ty))
            def good(s2):
                ln = TokLen(sv_.t)
                s2.assume(ln >= 0)
                r = s2.new_list_sym(TOK5, ln)
                er = s2.list_elems(r)
                j = z3.Int(fresh_name('tj'))
                ts = sort_of(TOK5)
                s2.assume(forall([j], z3.And(ts.accessor(0, 0)(z3.Select(er, j)) == TokNum(sv_.t, j),
                                             ts.accessor(0, 1)(z3.Select(er, j)) == TokVal(sv_.t, j)),
                                 patterns=[z3.Select(er, j)]))
                k(s2, r)
            e.branch(s, TokOk(sv_.t), good, lambda s2: e.raise_(s2, 'TokenError', 'tokenize'), note='tok@%s' % n.lineno)
        e.ev(src, st, got)
    tok_call.lazy = True
    X['tokenize.tokenize'] = tok_call

    def untok(e, n, pos, kws, st, k):
        lst = pos[0]
        if lst.ty.kind != 'list' or sortkey(lst.ty.args[0]) != sortkey(PAIR):
            raise Unsupported('untokenize of ' + str(lst.ty))
        return k(st, SV(Ty('bytes'), Untok(st.list_elems(lst), st.list_len(lst))))
    X['untokenize'] = untok
    M[('bytes', 'decode')] = lambda e, n, o, pos, kws, st, k: k(st, SV(STR, o.t))
