"""
ops.py - pure operations on symbolic values (no state, no forking).
"""
import z3
from .types import *
from . import types as T


def R(x):
    return z3.RealVal(x)


# ---- extended reals ----------------------------------------------------------------------
def xr_tag(t):
    return XR.tag(t)


def xr_val(t):
    return XR.val(t)


XNAN = XR.xr(NAN, R(0))
XPINF = XR.xr(PINF, R(0))
XNINF = XR.xr(NINF, R(0))


def xr_norm(r):
    return z3.If(r > DBL_MAX, XPINF, z3.If(r < -DBL_MAX, XNINF, XR.xr(FIN, r)))


def xr_wf(t):
    return z3.And(z3.Implies(xr_tag(t) != FIN, xr_val(t) == 0),
                  z3.Implies(xr_tag(t) == FIN, z3.And(xr_val(t) <= DBL_MAX, xr_val(t) >= -DBL_MAX)))


def xr_neg(a):
    ta, va = xr_tag(a), xr_val(a)
    return z3.If(ta == FIN, XR.xr(FIN, -va), z3.If(ta == PINF, XNINF, z3.If(ta == NINF, XPINF, XNAN)))


def xr_add(a, b):
    ta, va, tb, vb = xr_tag(a), xr_val(a), xr_tag(b), xr_val(b)
    return z3.If(z3.Or(ta == NAN, tb == NAN), XNAN,
                 z3.If(z3.And(ta == FIN, tb == FIN), xr_norm(va + vb),
                       z3.If(ta == FIN, b, z3.If(tb == FIN, a, z3.If(ta == tb, a, XNAN)))))


def xr_sub(a, b):
    return xr_add(a, xr_neg(b))


def xr_abs(a):
    ta, va = xr_tag(a), xr_val(a)
    return z3.If(ta == FIN, XR.xr(FIN, z3.If(va >= 0, va, -va)), z3.If(ta == NAN, XNAN, XPINF))


def _sign_pos(t):
    """t is +inf, or finite > 0"""
    return z3.Or(xr_tag(t) == PINF, z3.And(xr_tag(t) == FIN, xr_val(t) > 0))


def _sign_neg(t):
    return z3.Or(xr_tag(t) == NINF, z3.And(xr_tag(t) == FIN, xr_val(t) < 0))


def _is_zero(t):
    return z3.And(xr_tag(t) == FIN, xr_val(t) == 0)


def xr_mul(a, b):
    ta, va, tb, vb = xr_tag(a), xr_val(a), xr_tag(b), xr_val(b)
    same = z3.Or(z3.And(_sign_pos(a), _sign_pos(b)), z3.And(_sign_neg(a), _sign_neg(b)))
    return z3.If(z3.Or(ta == NAN, tb == NAN), XNAN,
                 z3.If(z3.And(ta == FIN, tb == FIN), xr_norm(va * vb),
                       z3.If(z3.Or(_is_zero(a), _is_zero(b)), XNAN, z3.If(same, XPINF, XNINF))))


def xr_div(a, b):
    """b is not a finite zero (ZeroDivisionError is forked by the caller)"""
    ta, va, tb, vb = xr_tag(a), xr_val(a), xr_tag(b), xr_val(b)
    same = z3.Or(z3.And(_sign_pos(a), _sign_pos(b)), z3.And(_sign_neg(a), _sign_neg(b)))
    return z3.If(z3.Or(ta == NAN, tb == NAN), XNAN,
                 z3.If(z3.And(ta == FIN, tb == FIN), xr_norm(va / vb),
                       z3.If(ta == FIN, XR.xr(FIN, R(0)),          # finite / inf
                             z3.If(tb == FIN, z3.If(same, XPINF, XNINF),   # inf / finite (non-zero)
                                   XNAN))))                                # inf / inf


def xr_eq(a, b):
    ta, va, tb, vb = xr_tag(a), xr_val(a), xr_tag(b), xr_val(b)
    return z3.And(ta != NAN, tb != NAN, ta == tb, z3.Or(ta != FIN, va == vb))


def xr_lt(a, b):
    ta, va, tb, vb = xr_tag(a), xr_val(a), xr_tag(b), xr_val(b)
    return z3.And(ta != NAN, tb != NAN,
                  z3.Or(z3.And(ta == NINF, tb != NINF),
                        z3.And(ta == FIN, tb == FIN, va < vb),
                        z3.And(ta == FIN, tb == PINF)))


def xr_le(a, b):
    return z3.Or(xr_lt(a, b), xr_eq(a, b))


def is_xreal():
    return T.FLOAT_MODE[0] == 'xreal'


# ---- numeric coercion ---------------------------------------------------------------------
def to_float(sv):
    k = sv.ty.kind
    if k == 'float':
        return sv
    if k == 'int':
        return mk_float(z3.ToReal(sv.t))
    if k == 'bool':
        return mk_float(z3.If(sv.t, R(1), R(0)))
    raise Unsupported('to_float(%s)' % sv.ty)


def to_int(sv):
    if sv.ty.kind == 'int':
        return sv
    if sv.ty.kind == 'bool':
        return SV(INT, z3.If(sv.t, z3.IntVal(1), z3.IntVal(0)))
    raise Unsupported('to_int(%s)' % sv.ty)


def is_num(sv):
    return sv.ty.kind in ('int', 'float', 'bool')


def arith(op, a, b):
    """+ - * on numbers; / handled by the executor (ZeroDivisionError fork) via `divide`"""
    if a.ty.kind in ('int', 'bool') and b.ty.kind in ('int', 'bool'):
        x, y = to_int(a).t, to_int(b).t
        if op == 'Add':
            return SV(INT, x + y)
        if op == 'Sub':
            return SV(INT, x - y)
        if op == 'Mult':
            return SV(INT, x * y)
        raise Unsupported('int op ' + op)
    fa, fb = to_float(a), to_float(b)
    if is_xreal():
        f = {'Add': xr_add, 'Sub': xr_sub, 'Mult': xr_mul}.get(op)
        if f is None:
            raise Unsupported('float op ' + op)
        return SV(FLOAT, f(fa.t, fb.t))
    if op == 'Add':
        return SV(FLOAT, fa.t + fb.t)
    if op == 'Sub':
        return SV(FLOAT, fa.t - fb.t)
    if op == 'Mult':
        return SV(FLOAT, fa.t * fb.t)
    raise Unsupported('float op ' + op)


def divide(a, b):
    fa, fb = to_float(a), to_float(b)
    if is_xreal():
        return SV(FLOAT, xr_div(fa.t, fb.t))
    return SV(FLOAT, fa.t / fb.t)


def is_zero_divisor(b):
    fb = to_float(b)
    if is_xreal():
        return _is_zero(fb.t)
    return fb.t == 0


def neg(a):
    if a.ty.kind in ('int', 'bool'):
        return SV(INT, -to_int(a).t)
    if a.ty.kind == 'float':
        return SV(FLOAT, xr_neg(a.t) if is_xreal() else -a.t)
    raise Unsupported('neg ' + str(a.ty))


def absval(a):
    if a.ty.kind in ('int', 'bool'):
        x = to_int(a).t
        return SV(INT, z3.If(x >= 0, x, -x))
    if a.ty.kind == 'float':
        if is_xreal():
            return SV(FLOAT, xr_abs(a.t))
        return SV(FLOAT, z3.If(a.t >= 0, a.t, -a.t))
    raise Unsupported('abs ' + str(a.ty))


def num_cmp(op, a, b):
    """op in Lt LtE Gt GtE Eq NotEq -> z3 Bool"""
    if a.ty.kind in ('int', 'bool') and b.ty.kind in ('int', 'bool'):
        x, y = to_int(a).t, to_int(b).t
        return {'Lt': x < y, 'LtE': x <= y, 'Gt': x > y, 'GtE': x >= y, 'Eq': x == y, 'NotEq': x != y}[op]
    fa, fb = to_float(a).t, to_float(b).t
    if is_xreal():
        if op == 'Lt':
            return xr_lt(fa, fb)
        if op == 'LtE':
            return xr_le(fa, fb)
        if op == 'Gt':
            return xr_lt(fb, fa)
        if op == 'GtE':
            return xr_le(fb, fa)
        if op == 'Eq':
            return xr_eq(fa, fb)
        if op == 'NotEq':
            return z3.Not(xr_eq(fa, fb))
    return {'Lt': fa < fb, 'LtE': fa <= fb, 'Gt': fa > fb, 'GtE': fa >= fb, 'Eq': fa == fb, 'NotEq': fa != fb}[op]


def py_max2(a, b):
    """Python's max(a, b): b if b > a else a"""
    if a.ty.kind == 'float' or b.ty.kind == 'float':
        a, b = to_float(a), to_float(b)
    c = num_cmp('Gt', b, a)
    return SV(a.ty, z3.If(c, b.t, a.t))


def py_min2(a, b):
    if a.ty.kind == 'float' or b.ty.kind == 'float':
        a, b = to_float(a), to_float(b)
    c = num_cmp('Lt', b, a)
    return SV(a.ty, z3.If(c, b.t, a.t))


# ---- equality (Python ==) -----------------------------------------------------------------
def py_eq(a, b):
    """z3 Bool for Python's a == b on the supported types"""
    ka, kb = a.ty.kind, b.ty.kind
    if is_num(a) and is_num(b):
        return num_cmp('Eq', a, b)
    if ka == 'str' and kb == 'str':
        return a.t == b.t
    if ka == 'meta' and kb == 'meta':
        return a.t == b.t            # type objects: compared by their tag
    if ka == 'none' and kb == 'none':
        return z3.BoolVal(True)
    if ka == 'none' or kb == 'none':
        other = b if ka == 'none' else a
        if other.ty.is_reflike:
            return other.t == 0
        if other.ty.kind == 'any':
            return ANYV.is_a_none(other.t)
        return z3.BoolVal(False)
    if a.ty.is_reflike and b.ty.is_reflike:
        # identity; value equality of lists / dicts is not modelled here (the executor handles
        # list == list where it is needed)
        if ka == 'ref' and kb == 'ref':
            return a.t == b.t
        raise Unsupported('== on containers')
    if ka == 'tup' and kb == 'tup':
        if len(a.ty.args) != len(b.ty.args):
            return z3.BoolVal(False)
        ai = a.items if a.items is not None else unpack(a.ty, a.t).items
        bi = b.items if b.items is not None else unpack(b.ty, b.t).items
        return z3.And(*[py_eq(x, y) for x, y in zip(ai, bi)])
    if ka == 'any' and kb == 'any':
        return a.t == b.t      # structural; NaN ignored for Any (documented)
    if ka == 'any' or kb == 'any':
        av, o = (a, b) if ka == 'any' else (b, a)
        return av.t == to_any(o)
    if ka != kb:
        # str vs number etc.: Python says False
        return z3.BoolVal(False)
    raise Unsupported('== on %s, %s' % (a.ty, b.ty))


def same_value(a, b):
    """spec-level equality ('is the same value'), NaN == NaN, used by specs via `same(a, b)`"""
    if a.ty.kind == 'float' and b.ty.kind in ('float', 'int'):
        return a.t == to_float(b).t
    if b.ty.kind == 'float' and a.ty.kind == 'int':
        return to_float(a).t == b.t
    if a.ty.kind == 'tup':
        ai = a.items if a.items is not None else unpack(a.ty, a.t).items
        bi = b.items if b.items is not None else unpack(b.ty, b.t).items
        return z3.And(*[same_value(x, y) for x, y in zip(ai, bi)])
    if a.ty.kind == 'none' or b.ty.kind == 'none':
        return py_eq(a, b)
    return a.t == b.t


# ---- truthiness ---------------------------------------------------------------------------
def truthy(sv, st=None):
    k = sv.ty.kind
    if k == 'bool':
        return sv.t
    if k == 'int':
        return sv.t != 0
    if k == 'float':
        if is_xreal():
            return z3.Not(_is_zero(sv.t))
        return sv.t != 0
    if k == 'str':
        return z3.Length(sv.t) > 0
    if k == 'none':
        return z3.BoolVal(False)
    if k == 'ref':
        return sv.t != 0
    if k in ('list', 'dict') and st is not None:
        return st.list_len(sv) > 0 if k == 'list' else None
    raise Unsupported('truthiness of ' + str(sv.ty))


# ---- strings ------------------------------------------------------------------------------
WS = ' \t\n\r\x0b\x0c'

Strip = z3.Function('py_strip', z3.StringSort(), z3.StringSort())
ReplaceAll = z3.Function('py_replace_all', z3.StringSort(), z3.StringSort(), z3.StringSort(), z3.StringSort())
Lower = z3.Function('py_lower', z3.StringSort(), z3.StringSort())
StrOfFloat = z3.Function('py_str_float', float_sort(), z3.StringSort())  # re-made per mode in facts


def _ws_char(c):
    return z3.Or(*[c == z3.StringVal(w) for w in WS])


# richer (sound) facts about strip(), switched on per verified function with hints={'strip_rich': True}: they cost solver time
STRIP_RICH = False


def strip_facts(s):
    """sound (incomplete) facts about str.strip() for the term Strip(s)"""
    r = Strip(s)
    n = z3.Length(r)
    first = z3.SubString(r, 0, 1)
    last = z3.SubString(r, n - 1, 1)
    s_first = z3.SubString(s, 0, 1)
    s_last = z3.SubString(s, z3.Length(s) - 1, 1)
    extra = []
    if not STRIP_RICH:
        return [z3.Contains(s, r),
                z3.Implies(n > 0, z3.And(z3.Not(_ws_char(first)), z3.Not(_ws_char(last)))),
                z3.Implies(z3.Or(z3.Length(s) == 0, z3.And(z3.Not(_ws_char(s_first)), z3.Not(_ws_char(s_last)))), r == s),
                Strip(r) == r]
    if z3.is_app(s) and s.decl().kind() == z3.Z3_OP_SEQ_CONCAT:
        # a concatenation with a literal part that has a non-blank character does not strip to ''
        for ch in s.children():
            if z3.is_string_value(ch) and ch.as_string().strip() != '':
                extra.append(n > 0)
                break
    # (instances of: a string with a non-blank character does not strip to '')
    for c in ('*', '_', '+', '-'):
        extra.append(z3.Implies(z3.Contains(s, z3.StringVal(c)), n > 0))
    return extra + [z3.Contains(s, r),
            z3.Implies(n > 0, z3.And(z3.Not(_ws_char(first)), z3.Not(_ws_char(last)))),
            z3.Implies(z3.Or(z3.Length(s) == 0, z3.And(z3.Not(_ws_char(s_first)), z3.Not(_ws_char(s_last)))), r == s),
            # a non-blank end is kept: the result starts (ends) with the same character
            z3.Implies(z3.And(z3.Length(s) > 0, z3.Not(_ws_char(s_first))), z3.And(n > 0, first == s_first)),
            z3.Implies(z3.And(z3.Length(s) > 0, z3.Not(_ws_char(s_last))), z3.And(n > 0, last == s_last)),
            Strip(r) == r]


def replace_all_facts(s, a, b):
    r = ReplaceAll(s, a, b)
    facts = [z3.Implies(z3.Not(z3.Contains(s, a)), r == s),
             z3.Implies(z3.Length(a) > 0, z3.Implies(z3.Contains(s, a), r == z3.Concat(
                 z3.SubString(s, 0, z3.IndexOf(s, a, 0)), b,
                 ReplaceAll(z3.SubString(s, z3.IndexOf(s, a, 0) + z3.Length(a), z3.Length(s)), a, b))))]
    return facts


def slice_str(s, lo, hi):
    """Python s[lo:hi] with lo/hi z3 Int terms or None; negative indices and clamping as Python"""
    n = z3.Length(s)

    def norm(i, default):
        if i is None:
            return default
        i = z3.If(i < 0, i + n, i)
        return z3.If(i < 0, z3.IntVal(0), z3.If(i > n, n, i))
    a = norm(lo, z3.IntVal(0))
    b = norm(hi, n)
    return z3.If(b > a, z3.SubString(s, a, b - a), z3.StringVal(''))
