"""
prop.py - a property = a set of function contracts to verify + lemmas over contracts + bounded stand-ins.
"""
import z3
from .spec import FnSpec, REG
from .sym import Obligation


class Bounded(object):
    def __init__(self, name, script, func, bound, stands_in_for, quick_args=None, thorough_args=None):
        self.name = name
        self.script = script            # path relative to /verif, run under /venv/bin/python
        self.func = func
        self.bound = bound              # stated bound (text)
        self.stands_in_for = stands_in_for
        self.quick_args = quick_args or {}
        self.thorough_args = thorough_args or {}


class Lemma(object):
    def __init__(self, name, build, doc='', float_mode='real'):
        self.name = name
        self.build = build              # () -> list of (subname, hyps, goal)
        self.doc = doc
        self.float_mode = float_mode


class Scan(object):
    """mechanical obligation computed from the AST of the working tree (no solver)"""
    def __init__(self, name, run, doc=''):
        self.name = name
        self.run = run                  # (repo) -> list of (subname, ok: bool, detail)
        self.doc = doc


class Property(object):
    def __init__(self, pid, level, level_text, technique, design_ref='', level_note=''):
        self.pid = pid
        self.level = level
        self.level_text = level_text
        self.technique = technique
        self.design_ref = design_ref
        self.level_note = level_note
        self.fns = []
        self.lemmas = []
        self.scans = []
        self.bounded = []
        self.trusted = []          # trusted-base entries (text)
        self.assumptions = []
        self.replay_script = None
        self.not_decided = []      # clauses of the statement that are only bounded / not decided
        REG['props'][pid] = self

    def verify(self, spec):
        self.fns.append(spec)
        return spec

    def lemma(self, name, build, doc='', float_mode='real'):
        self.lemmas.append(Lemma(name, build, doc, float_mode))

    def scan(self, name, run, doc=''):
        self.scans.append(Scan(name, run, doc))

    def bound(self, *a, **kw):
        self.bounded.append(Bounded(*a, **kw))

    def trust(self, *items):
        self.trusted.extend(items)

    def assume(self, *items):
        self.assumptions.extend(items)
