"""
repo.py - locate the real functions and classes of /repo by qualified name.

Nothing is imported or executed: the working-tree sources are parsed with `ast` on every run.
"""
import ast
import hashlib
import os

REPO = os.environ.get('PYVC_REPO', '/repo')
PKG = 'sfc_models'

# modules that are read (relative to the package); everything else (examples, tests) is ignored
MODULES = ['utils', 'equation', 'equation_parser', 'equation_solver', 'models', 'sector',
           'sector_definitions', 'external', 'base_solver', '__init__',
           'deprecated.iterative_machine_generator',
           'gl_book.model_SIM_iterative', 'gl_book.chapter3', 'gl_book.chapter4', 'gl_book.__init__']


class FuncInfo(object):
    def __init__(self, qualname, node, module, cls, source):
        self.qualname = qualname
        self.node = node
        self.module = module
        self.cls = cls              # ClassInfo or None
        self.source = source
        self.sha = hashlib.sha256(source.encode('utf-8')).hexdigest()[:16]
        self.is_static = any(isinstance(d, ast.Name) and d.id == 'staticmethod' for d in node.decorator_list)

    @property
    def name(self):
        return self.node.name

    def params(self):
        a = self.node.args
        names = [x.arg for x in a.args]
        defaults = [None] * (len(names) - len(a.defaults)) + list(a.defaults)
        return list(zip(names, defaults))


class ClassInfo(object):
    def __init__(self, name, node, module):
        self.name = name
        self.node = node
        self.module = module
        self.base_names = []
        for b in node.bases:
            if isinstance(b, ast.Name):
                self.base_names.append(b.id)
            elif isinstance(b, ast.Attribute):
                self.base_names.append(b.attr)
        self.methods = {}
        self.class_attrs = {}       # name -> ast value node

    def __repr__(self):
        return '<class %s>' % self.name


class Repo(object):
    def __init__(self, root=None):
        self.root = root or REPO
        self.classes = {}       # simple name -> ClassInfo
        self.functions = {}     # qualname (module.func / module.Class.meth) -> FuncInfo
        self.by_simple = {}     # simple function name -> [FuncInfo]  (module-level functions)
        self.module_consts = {}  # (module, name) -> ast node of module-level assignment
        self.files = {}
        self.missing = []
        for m in MODULES:
            self._load(m)

    def _load(self, mod):
        rel = os.path.join(PKG, *mod.split('.')) + '.py'
        path = os.path.join(self.root, rel)
        if not os.path.exists(path):
            self.missing.append(rel)
            return
        with open(path, encoding='utf-8') as f:
            src = f.read()
        try:
            tree = ast.parse(src)
        except SyntaxError as e:   # a tree that does not compile: reported, not verified
            self.missing.append(rel + ' (syntax error: %s)' % e)
            return
        self.files[mod] = (path, src)
        modname = PKG + '.' + mod if mod != '__init__' else PKG
        modname = modname.replace('.__init__', '')
        self._scan_body(tree.body, modname, src)

    def _scan_body(self, body, modname, src):
        for node in body:
            if isinstance(node, ast.FunctionDef):
                fi = FuncInfo(modname + '.' + node.name, node, modname, None, ast.get_source_segment(src, node) or '')
                self.functions[fi.qualname] = fi
                self.by_simple.setdefault(node.name, []).append(fi)
            elif isinstance(node, ast.ClassDef):
                ci = ClassInfo(node.name, node, modname)
                # later definitions with the same simple name would shadow; the package has none
                self.classes.setdefault(node.name, ci)
                for sub in node.body:
                    if isinstance(sub, ast.FunctionDef):
                        fi = FuncInfo(modname + '.' + node.name + '.' + sub.name, sub, modname, ci,
                                      ast.get_source_segment(src, sub) or '')
                        self.functions[fi.qualname] = fi
                        ci.methods[sub.name] = fi
                    elif isinstance(sub, ast.Assign) and len(sub.targets) == 1 and isinstance(sub.targets[0], ast.Name):
                        ci.class_attrs[sub.targets[0].id] = sub.value
            elif isinstance(node, ast.Assign) and len(node.targets) == 1 and isinstance(node.targets[0], ast.Name):
                self.module_consts[(modname, node.targets[0].id)] = node.value
            elif isinstance(node, ast.If):
                # `if is_python_3: ... else: ...` at module level: take the Python-3 arm
                if isinstance(node.test, ast.Name) and node.test.id == 'is_python_3':
                    self._scan_body(node.body, modname, src)

    # ---- class hierarchy -------------------------------------------------------------------
    def mro(self, cname):
        out = []
        todo = [cname]
        while todo:
            c = todo.pop(0)
            if c in out:
                continue
            out.append(c)
            ci = self.classes.get(c)
            if ci is not None:
                todo.extend(ci.base_names)
        return out

    def is_subclass(self, c, base):
        return base in self.mro(c)

    def subclasses(self, base):
        return [c for c in self.classes if self.is_subclass(c, base)]

    def find_method(self, cname, mname):
        for c in self.mro(cname):
            ci = self.classes.get(c)
            if ci is not None and mname in ci.methods:
                return ci.methods[mname]
        return None

    def overriders(self, cname, mname):
        """classes below `cname` (strict subclasses) that define `mname` themselves"""
        out = []
        for c in self.subclasses(cname):
            if c != cname and mname in self.classes[c].methods:
                out.append(c)
        return out

    def func(self, qualname):
        return self.functions.get(qualname)

    def tree_sha(self):
        h = hashlib.sha256()
        for m in sorted(self.files):
            h.update(self.files[m][1].encode('utf-8'))
        return h.hexdigest()[:16]
