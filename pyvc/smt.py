"""
smt.py - discharge obligations: z3 in-process (forked workers), cvc5 CLI for what z3 leaves unknown.

verdicts:  discharged (negation unsat) | refuted (sat + model) | undecided (unknown / time-out)
cover obligations:  covered (hyps sat) | vacuous (hyps unsat) | undecided
"""
import multiprocessing
import os
import subprocess
import tempfile
import time
import z3

CVC5 = '/usr/bin/cvc5'
_OBS = []


def _smt2(hyps, goal_neg):
    s = z3.Solver()
    for h in hyps:
        s.add(h)
    if goal_neg is not None:
        s.add(goal_neg)
    txt = s.to_smt2()
    return txt


def run_cvc5(smt2_text, timeout_s, want_model=False):
    txt = smt2_text.replace('(set-info :status unknown)', '')
    if '(set-logic' not in txt:
        txt = '(set-logic ALL)\n' + txt
    with tempfile.NamedTemporaryFile('w', suffix='.smt2', delete=False, dir=os.environ.get('PYVC_TMP', None)) as f:
        f.write(txt)
        path = f.name
    try:
        cmd = [CVC5, '--strings-exp', '--tlimit=%d' % int(timeout_s * 1000), path]
        try:
            p = subprocess.run(cmd, stdout=subprocess.PIPE, stderr=subprocess.PIPE, timeout=timeout_s + 5, universal_newlines=True)
        except subprocess.TimeoutExpired:
            return 'unknown', 'timeout'
        out = p.stdout.strip().split('\n')[0] if p.stdout.strip() else ''
        if out in ('sat', 'unsat'):
            return out, ''
        return 'unknown', (p.stdout + p.stderr)[:300]
    finally:
        try:
            os.unlink(path)
        except OSError:
            pass


def _has_quant(t, depth=0):
    if z3.is_quantifier(t):
        return True
    if depth > 40:
        return True
    if z3.is_app(t):
        return any(_has_quant(c, depth + 1) for c in t.children())
    return False


def _collect_apps(t, name, acc, seen):
    i = t.get_id()
    if i in seen:
        return
    seen.add(i)
    if z3.is_quantifier(t):
        return          # applications under binders mention bound variables: skipped
    if z3.is_app(t):
        if t.decl().name() == name:
            acc[i] = t
        for c in t.children():
            _collect_apps(c, name, acc, seen)


def join_congruence(hyps, goal):
    """T-LIB: str.join depends only on the separator and the first n elements (ground instances)"""
    acc, seen = {}, set()
    for h in list(hyps) + ([goal] if goal is not None else []):
        _collect_apps(h, 'py_join', acc, seen)
    apps = list(acc.values())
    out = []
    for a in range(len(apps)):
        for b in range(a + 1, len(apps)):
            x, y = apps[a], apps[b]
            sa, ea, na = x.children()
            sb, eb, nb = y.children()
            if ea.sort() != eb.sort():
                continue
            j = z3.Int('jc!%d_%d' % (a, b))
            same = z3.ForAll([j], z3.Implies(z3.And(0 <= j, j < na), z3.Select(ea, j) == z3.Select(eb, j)))
            out.append(z3.Implies(z3.And(sa == sb, na == nb, same), x == y))
    # T-TOK: untokenize depends only on the first n (type, string) pairs
    acc2, seen2 = {}, set()
    for h in list(hyps) + ([goal] if goal is not None else []):
        _collect_apps(h, 'py_untokenize', acc2, seen2)
    apps = list(acc2.values())
    for a in range(len(apps)):
        for b in range(a + 1, len(apps)):
            x, y = apps[a], apps[b]
            ea, na = x.children()
            eb, nb = y.children()
            j = z3.Int('uc!%d_%d' % (a, b))
            same = z3.ForAll([j], z3.Implies(z3.And(0 <= j, j < na), z3.Select(ea, j) == z3.Select(eb, j)))
            out.append(z3.Implies(z3.And(na == nb, same), x == y))
    return out


def _solve_one(args):
    idx, timeout_ms, use_cvc5 = args
    o = _OBS[idx]
    t0 = time.time()
    res = {'idx': idx, 'verdict': None, 'backend': 'z3', 'ms': 0, 'model': None, 'reason': '', 'watch': {}}
    try:
        r = z3.unknown
        extra = []
        if o.kind == 'check' and not getattr(o, '_cong', False):
            extra = join_congruence(o.hyps, o.goal)
            if extra and any(_has_quant(h) for h in o.hyps + [o.goal]):
                # portfolio step 0: pure E-matching without the (pattern-free) congruence instances
                s = z3.Solver()
                s.set('auto_config', False)
                s.set('smt.mbqi', False)
                s.set('timeout', max(1000, min(4000, timeout_ms // 4)))
                for h in o.hyps:
                    s.add(h)
                s.add(z3.Not(o.goal))
                if s.check() == z3.unsat:
                    r = z3.unsat
                    res['backend'] = 'z3(ematch)'
            o.hyps = list(o.hyps) + extra
            o._cong = True
        if r == z3.unknown and o.kind == 'check' and any(_has_quant(h) for h in o.hyps + [o.goal]):
            # portfolio step 1: pure E-matching (no model-based instantiation); only `unsat` is taken from it
            s = z3.Solver()
            s.set('auto_config', False)
            s.set('smt.mbqi', False)
            s.set('timeout', max(1000, min(4000, timeout_ms // 4)))
            for h in o.hyps:
                s.add(h)
            s.add(z3.Not(o.goal))
            if s.check() == z3.unsat:
                r = z3.unsat
                res['backend'] = 'z3(ematch)'
        if o.kind == 'cover' and any(_has_quant(h) for h in o.hyps):
            # quantified hypotheses make `sat` hard to show: decide the quantifier-free part
            # (unsat there => vacuous for sure; sat there => accepted as covered, labelled)
            s = z3.Solver()
            s.set('timeout', timeout_ms)
            for h in o.hyps:
                if not _has_quant(h):
                    s.add(h)
            r2 = s.check()
            res['backend'] = 'z3(qf-part)'
            res['verdict'] = 'covered' if r2 == z3.sat else ('vacuous' if r2 == z3.unsat else 'undecided')
            res['ms'] = int((time.time() - t0) * 1000)
            return res
        quantified = o.kind == 'check' and any(_has_quant(h) for h in o.hyps + [o.goal])
        cvc5_said = None
        if r == z3.unknown and quantified and use_cvc5:
            # portfolio step 2 (quantified obligations): cvc5's instantiation strategies before z3's MBQI
            txt = _smt2(o.hyps, z3.Not(o.goal))
            cr, why = run_cvc5(txt, max(2.0, timeout_ms / 1000.0))
            cvc5_said = cr
            if cr == 'unsat':
                r = z3.unsat
                res['backend'] = 'cvc5'
            else:
                res['reason'] = 'cvc5: %s' % (why or cr)
        if r == z3.unknown:
            s = z3.Solver()
            s.set('timeout', timeout_ms if not quantified else max(2000, timeout_ms // 3))
            for h in o.hyps:
                s.add(h)
            if o.kind == 'check':
                s.add(z3.Not(o.goal))
            r = s.check()
            if r == z3.unknown:
                res['reason'] = ('z3: %s; ' % s.reason_unknown()) + res['reason']
        if r == z3.unknown and use_cvc5 and o.kind == 'check' and cvc5_said is None:
            txt = _smt2(o.hyps, z3.Not(o.goal))
            cr, why = run_cvc5(txt, max(2.0, timeout_ms / 1000.0))
            res['backend'] = 'cvc5'
            if cr == 'unsat':
                r = z3.unsat
            elif cr == 'sat':
                r = 'cvc5-sat'
            else:
                res['reason'] = 'z3: %s; cvc5: %s' % (s.reason_unknown(), why)
        if r == z3.unknown and cvc5_said == 'sat':
            r = 'cvc5-sat'
        if o.kind == 'check':
            if r == z3.unsat:
                res['verdict'] = 'discharged'
            elif r == z3.sat:
                res['verdict'] = 'refuted'
                m = s.model()
                res['model'] = str(m)[:6000]
                for wn, wt in o.watch.items():
                    try:
                        res['watch'][wn] = str(m.eval(wt, model_completion=True))
                    except Exception as ex:   # noqa
                        res['watch'][wn] = '?'
            elif r == 'cvc5-sat':
                res['verdict'] = 'refuted'
                res['model'] = '(cvc5 sat; no model extracted)'
            else:
                res['verdict'] = 'undecided'
                if not res['reason']:
                    res['reason'] = s.reason_unknown()
        else:
            if r == z3.sat or r == 'cvc5-sat':
                res['verdict'] = 'covered'
            elif r == z3.unsat:
                res['verdict'] = 'vacuous'
            else:
                res['verdict'] = 'undecided'
                res['reason'] = s.reason_unknown()
    except Exception as ex:     # solver crash: undecided, never violated
        res['verdict'] = 'undecided'
        res['reason'] = 'solver exception: %r' % (ex,)
    res['ms'] = int((time.time() - t0) * 1000)
    return res


def _child(conn, job):
    try:
        import resource
        lim = int(os.environ.get('PYVC_MEM_MB', '6000')) * 1024 * 1024
        try:
            resource.setrlimit(resource.RLIMIT_AS, (lim, lim))
        except Exception:
            pass
        z3.set_param('memory_max_size', int(os.environ.get('PYVC_MEM_MB', '6000')))
        r = _solve_one(job)
    except MemoryError:
        r = {'idx': job[0], 'verdict': 'undecided', 'backend': 'z3', 'ms': 0, 'model': None,
             'reason': 'solver memory limit', 'watch': {}}
    except BaseException as ex:   # noqa
        r = {'idx': job[0], 'verdict': 'undecided', 'backend': 'z3', 'ms': 0, 'model': None,
             'reason': 'solver process error: %r' % (ex,), 'watch': {}}
    try:
        conn.send(r)
    except Exception:
        pass
    conn.close()
    os._exit(0)


def discharge(obligations, timeout_ms=10000, workers=None, use_cvc5=True):
    """one forked process per obligation, at most `workers` at a time, each under a hard wall-clock
    and memory limit (a runaway solver is killed and the obligation is *undecided*)"""
    global _OBS
    _OBS = obligations
    workers = workers or min(14, max(1, (os.cpu_count() or 2) - 2))
    jobs = [(i, timeout_ms, use_cvc5) for i in range(len(obligations))]
    hard_s = 2.2 * timeout_ms / 1000.0 + 20.0
    t0 = time.time()
    ctx = multiprocessing.get_context('fork')
    pending = list(reversed(jobs))
    running = {}     # idx -> (proc, conn, start)
    results = []
    while pending or running:
        while pending and len(running) < workers:
            job = pending.pop()
            pc, cc = ctx.Pipe(duplex=False)
            p = ctx.Process(target=_child, args=(cc, job))
            p.start()
            cc.close()
            running[job[0]] = (p, pc, time.time())
        done = []
        for idx, (p, pc, st) in running.items():
            if pc.poll(0):
                try:
                    results.append(pc.recv())
                except EOFError:
                    results.append({'idx': idx, 'verdict': 'undecided', 'backend': 'z3', 'ms': int((time.time() - st) * 1000),
                                    'model': None, 'reason': 'solver process died (memory limit?)', 'watch': {}})
                done.append(idx)
            elif not p.is_alive():
                results.append({'idx': idx, 'verdict': 'undecided', 'backend': 'z3', 'ms': int((time.time() - st) * 1000),
                                'model': None, 'reason': 'solver process died (memory limit?)', 'watch': {}})
                done.append(idx)
            elif time.time() - st > hard_s:
                p.kill()
                results.append({'idx': idx, 'verdict': 'undecided', 'backend': 'z3', 'ms': int((time.time() - st) * 1000),
                                'model': None, 'reason': 'hard time limit (%.0fs): solver killed' % hard_s, 'watch': {}})
                done.append(idx)
        for idx in done:
            p, pc, st = running.pop(idx)
            try:
                pc.close()
            except Exception:
                pass
            p.join(timeout=1)
        if not done:
            time.sleep(0.01)
    for r in results:
        o = obligations[r['idx']]
        o.verdict = r['verdict']
        o.backend = r['backend']
        o.ms = r['ms']
        o.model = r['model']
        o.reason = r['reason']
        o.watch_values = r['watch']
    return time.time() - t0
