"""
smt.py - discharge obligations: z3 in-process (forked workers), cvc5 CLI for what z3 leaves unknown.

verdicts:  discharged (negation unsat) | refuted (sat + model) | undecided (unknown / time-out)
cover obligations:  covered (hyps sat) | vacuous (hyps unsat) | undecided
"""
import multiprocessing
import os
import subprocess
import tempfile
import time
import z3

CVC5 = '/usr/bin/cvc5'
_OBS = []


def _smt2(hyps, goal_neg):
    s = z3.Solver()
    for h in hyps:
        s.add(h)
    if goal_neg is not None:
        s.add(goal_neg)
    txt = s.to_smt2()
    return txt


def run_cvc5(smt2_text, timeout_s, want_model=False):
    txt = smt2_text.replace('(set-info :status unknown)', '')
    if '(set-logic' not in txt:
        txt = '(set-logic ALL)\n' + txt
    with tempfile.NamedTemporaryFile('w', suffix='.smt2', delete=False, dir=os.environ.get('PYVC_TMP', None)) as f:
        f.write(txt)
        path = f.name
    try:
        cmd = [CVC5, '--strings-exp', '--tlimit=%d' % int(timeout_s * 1000), path]
        try:
            p = subprocess.run(cmd, stdout=subprocess.PIPE, stderr=subprocess.PIPE, timeout=timeout_s + 5, universal_newlines=True)
        except subprocess.TimeoutExpired:
            return 'unknown', 'timeout'
        out = p.stdout.strip().split('\n')[0] if p.stdout.strip() else ''
        if out in ('sat', 'unsat'):
            return out, ''
        return 'unknown', (p.stdout + p.stderr)[:300]
    finally:
        try:
            os.unlink(path)
        except OSError:
            pass


def _solve_one(args):
    idx, timeout_ms, use_cvc5 = args
    o = _OBS[idx]
    t0 = time.time()
    res = {'idx': idx, 'verdict': None, 'backend': 'z3', 'ms': 0, 'model': None, 'reason': '', 'watch': {}}
    try:
        s = z3.Solver()
        s.set('timeout', timeout_ms)
        for h in o.hyps:
            s.add(h)
        if o.kind == 'check':
            s.add(z3.Not(o.goal))
        r = s.check()
        if r == z3.unknown and use_cvc5:
            txt = _smt2(o.hyps, z3.Not(o.goal) if o.kind == 'check' else None)
            cr, why = run_cvc5(txt, max(2.0, timeout_ms / 1000.0))
            res['backend'] = 'cvc5'
            if cr == 'unsat':
                r = z3.unsat
            elif cr == 'sat':
                r = 'cvc5-sat'
            else:
                res['reason'] = 'z3: %s; cvc5: %s' % (s.reason_unknown(), why)
        if o.kind == 'check':
            if r == z3.unsat:
                res['verdict'] = 'discharged'
            elif r == z3.sat:
                res['verdict'] = 'refuted'
                m = s.model()
                res['model'] = str(m)[:6000]
                for wn, wt in o.watch.items():
                    try:
                        res['watch'][wn] = str(m.eval(wt, model_completion=True))
                    except Exception as ex:   # noqa
                        res['watch'][wn] = '?'
            elif r == 'cvc5-sat':
                res['verdict'] = 'refuted'
                res['model'] = '(cvc5 sat; no model extracted)'
            else:
                res['verdict'] = 'undecided'
                if not res['reason']:
                    res['reason'] = s.reason_unknown()
        else:
            if r == z3.sat or r == 'cvc5-sat':
                res['verdict'] = 'covered'
            elif r == z3.unsat:
                res['verdict'] = 'vacuous'
            else:
                res['verdict'] = 'undecided'
                res['reason'] = s.reason_unknown()
    except Exception as ex:     # solver crash: undecided, never violated
        res['verdict'] = 'undecided'
        res['reason'] = 'solver exception: %r' % (ex,)
    res['ms'] = int((time.time() - t0) * 1000)
    return res


def discharge(obligations, timeout_ms=10000, workers=None, use_cvc5=True):
    global _OBS
    _OBS = obligations
    workers = workers or min(14, max(1, (os.cpu_count() or 2) - 2))
    jobs = [(i, timeout_ms, use_cvc5) for i in range(len(obligations))]
    t0 = time.time()
    if len(jobs) <= 2 or workers == 1:
        results = [_solve_one(j) for j in jobs]
    else:
        ctx = multiprocessing.get_context('fork')
        with ctx.Pool(processes=min(workers, len(jobs))) as pool:
            results = list(pool.imap_unordered(_solve_one, jobs, chunksize=1))
    for r in results:
        o = obligations[r['idx']]
        o.verdict = r['verdict']
        o.backend = r['backend']
        o.ms = r['ms']
        o.model = r['model']
        o.reason = r['reason']
        o.watch_values = r['watch']
    return time.time() - t0
