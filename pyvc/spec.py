"""
spec.py - sidecar contract objects, registry, and the evaluator for spec expressions.

Spec expressions are Python-syntax strings.  Vocabulary (besides the parameters, locals and
`result`):  old(e)  len(x)  x.f  x[i]  k in d  all(P for j in range(a, b))  any(...)
implies(a, b)  iff(a, b)  same(a, b)  fresh(x)  is_none(x)  `a if c else b`, and registered
spec functions (`specfn`).
"""
import ast
import z3
from .types import *
from . import types as T
from . import ops
from .state import ClassSpec

REG = {'fns': {}, 'classes': [], 'specfns': {}, 'lemmas': [], 'props': {}}


class LoopSpec(object):
    def __init__(self, invariants=(), index=None, decreases=None, unroll=False, ghost=None, modifies=None, header=None, body_ghost=None):
        self.header = header      # e.g. 'for v in varz': preferred over the ordinal key when it matches a loop
        # (name, expr) or (name, expr, uses): `uses` lists the other invariants of this loop that the
        # inductive step of `name` needs; the rest are dropped from its hypotheses (always sound)
        self.invariants = [(x[0], x[1]) for x in invariants]
        self.uses = dict((x[0], set(x[2])) for x in invariants if len(x) > 2)
        self.index = index
        self.decreases = decreases
        self.unroll = unroll
        self.ghost = ghost or {}
        self.modifies = modifies
        # ghost statements executed at the start of every iteration (after the loop target is bound)
        self.body_ghost = ast.parse(body_ghost).body if body_ghost else []
        for g in self.body_ghost:
            for x in ast.walk(g):
                x._is_ghost = True


class RaisesSpec(object):
    def __init__(self, exc, when='True', iff=False, ensures=()):
        self.exc = exc
        self.when = when
        self.iff = iff
        self.ensures = [tuple(x) if len(x) == 3 else (x[0], x[1], None) for x in ensures]


class FnSpec(object):
    def __init__(self, qualname, args, returns=None, requires=(), ensures=(), raises=(), only_raises=True,
                 modifies=None, loops=None, float_mode='real', contract_at_calls=True, hints=None,
                 inline=(), name=None, assumes=(), opaque_calls=(), cover=True, defs=(), old_defs=(), watch=(), call_lemmas=(), ghost_after=()):
        self.qualname = qualname
        self.name = name or qualname
        self.args = list(args.items()) if isinstance(args, dict) else list(args)
        self.returns = returns
        self.requires = [(n, e) for n, e in requires]
        self.ensures = [tuple(x) if len(x) == 3 else (x[0], x[1], None) for x in ensures]
        self.defs = [(n, e) for n, e in defs]          # let-bindings evaluated in the post-state
        self.old_defs = [(n, e) for n, e in old_defs]  # let-bindings evaluated in the pre-state
        self.raises = list(raises)
        self.call_lemmas = list(call_lemmas)   # spec expressions evaluated after every contract call (old = pre-call
        # state): the lemma instances they generate between the two states are assumed (the lemmas are proved)
        # ghost code: (statement text, ghost statements) executed right after every statement whose unparsed
        # text equals the first component (also inside inlined callees); may only assign ghost fields / locals
        self.ghost_after = [(a, ast.parse(b).body) for a, b in ghost_after]
        self.watch = list(watch)       # spec expressions (entry state) evaluated in counter-models for replay
        self.only_raises = only_raises
        self.modifies = modifies            # None = nothing;  list of family names / patterns
        self.loops = loops or {}
        self.float_mode = float_mode
        self.contract_at_calls = contract_at_calls
        self.hints = hints or {}
        self.inline = set(inline)
        self.assumes = [(n, e) for n, e in assumes]    # listed as assumptions in the evidence
        self.opaque_calls = set(opaque_calls)
        self.cover = cover


def fn(qualname, **kw):
    s = FnSpec(qualname, **kw)
    REG['fns'].setdefault(qualname, []).append(s)
    return s


def cls(name, fields=None, dict_kv=None, bases=()):
    cs = ClassSpec(name, fields, dict_kv, bases)
    REG['classes'].append(cs)
    return cs


def specfn(name):
    def deco(f):
        REG['specfns'][name] = f
        return f
    return deco


def reset():
    REG['fns'].clear()
    del REG['classes'][:]
    REG['specfns'].clear()
    del REG['lemmas'][:]
    REG['props'].clear()


class SpecCtx(object):
    def __init__(self, st, old=None, result=None, bound=None, extra=None, entry=None):
        self.st = st
        self.old = old if old is not None else st
        self.result = result
        self.bound = dict(bound or {})
        self.extra = dict(extra or {})     # extra names (ghost values, loop index...)
        self.entry = entry if entry is not None else self.old
        self.side = []                     # side facts produced while evaluating (e.g. strip facts)

    def with_state(self, st):
        c = SpecCtx(st, self.old, self.result, self.bound, self.extra, self.entry)
        c.side = self.side
        # names that do not exist in the older state (locals, ghosts) keep their current values
        c.fallback = getattr(self, 'fallback', None) or self.st
        return c

    def bind(self, name, sv):
        c = SpecCtx(self.st, self.old, self.result, self.bound, self.extra, self.entry)
        c.bound[name] = sv
        c.side = self.side
        c.fallback = getattr(self, 'fallback', None)
        return c


_parse_cache = {}


def parse_expr(src):
    if src not in _parse_cache:
        _parse_cache[src] = ast.parse(src.strip(), mode='eval').body
    return _parse_cache[src]


def opt_is_none(sv):
    ty = sv.ty
    if ty.kind == 'none':
        return z3.BoolVal(True)
    if ty.kind == 'opt':
        inner = ty.args[0]
        if inner.is_reflike:
            return sv.t == 0
        s = sort_of(ty)
        return s.recognizer(0)(sv.t)
    if ty.is_reflike:
        return sv.t == 0
    if ty.kind == 'any':
        return ANYV.is_a_none(sv.t)
    return z3.BoolVal(False)


def opt_get(sv):
    ty = sv.ty
    if ty.kind != 'opt':
        return sv
    inner = ty.args[0]
    if inner.is_reflike:
        return SV(inner, sv.t)
    s = sort_of(ty)
    return unpack(inner, s.accessor(1, 0)(sv.t))


def index_patterns(body, j, limit=6):
    """triggers for a quantifier over an index j: the element reads A[j] (A free of j, no nested quantifier) in the body,
    each as an alternative single pattern - any ground read A[t] instantiates the quantifier at t"""
    found = {}
    seen = set()

    def mentions(t):
        if z3.eq(t, j):
            return True
        if z3.is_app(t):
            return any(mentions(c) for c in t.children())
        return False

    def has_var(t, depth=0):
        if z3.is_var(t):
            return True
        if depth > 30:
            return True
        if z3.is_app(t):
            return any(has_var(c, depth + 1) for c in t.children())
        return z3.is_quantifier(t)

    def walk(t, depth=0):
        if t.get_id() in seen or depth > 60:
            return
        seen.add(t.get_id())
        if z3.is_quantifier(t):
            # reads of the OUTER index inside a nested quantifier are usable when they are free of the inner bound variables
            walk(t.body(), depth + 1)
            return
        if z3.is_app(t):
            if t.decl().kind() == z3.Z3_OP_SELECT and len(t.children()) == 2:
                a, i = t.children()
                if z3.eq(i, j) and not mentions(a) and not T._has_ite(a) and not has_var(a):
                    found[t.get_id()] = t
            for c in t.children():
                walk(c, depth + 1)
    try:
        walk(body)
    except Exception:
        return []
    return list(found.values())[:limit]


class SpecEval(object):
    def __init__(self, engine=None):
        self.engine = engine

    def formula(self, src, ctx):
        marks = self._marks(ctx)
        v = self.ev(parse_expr(src), ctx)
        r = self.as_bool(v, ctx)
        self._collect(ctx, marks)
        return r

    def value(self, src, ctx):
        marks = self._marks(ctx)
        v = self.ev(parse_expr(src), ctx)
        self._collect(ctx, marks)
        return v

    def _marks(self, ctx):
        out = []
        for s in (ctx.old, ctx.entry):
            if s is not ctx.st and all(s is not m[0] for m in out):
                out.append((s, len(s.pc)))
        return out

    def _collect(self, ctx, marks):
        # well-formedness facts of values read from an older state (e.g. "allocated at entry") are
        # recorded on that state; make them available to the current obligation as side facts
        for s, n in marks:
            if len(s.pc) > n:
                ctx.side.extend(s.pc[n:])

    def as_bool(self, v, ctx):
        if v.ty.kind == 'bool':
            return v.t
        if v.ty.kind == 'opt':
            return z3.Not(opt_is_none(v))
        t = ops.truthy(v, ctx.st)
        if t is None:
            raise Unsupported('truthiness in spec')
        return t

    def ev(self, n, ctx):
        m = getattr(self, 'ev_' + type(n).__name__, None)
        if m is None:
            raise Unsupported('spec expression node ' + type(n).__name__)
        return m(n, ctx)

    def ev_Constant(self, n, ctx):
        v = n.value
        if v is None:
            return NONE_V
        if isinstance(v, bool):
            return mk_bool(v)
        if isinstance(v, int):
            return mk_int(v)
        if isinstance(v, float):
            return mk_float(v)
        if isinstance(v, str):
            return mk_str(v)
        raise Unsupported('spec constant %r' % (v,))

    def ev_Name(self, n, ctx):
        nm = n.id
        if nm in ctx.bound:
            return ctx.bound[nm]
        if nm == 'result' and ctx.result is not None:
            return ctx.result
        if nm in ctx.extra:
            return ctx.extra[nm]
        if nm in ctx.st.env:
            return ctx.st.env[nm]
        if nm in ctx.st.ghost:
            return ctx.st.ghost[nm]
        fb = getattr(ctx, 'fallback', None)
        if fb is not None:
            if nm in fb.env:
                return fb.env[nm]
            if nm in fb.ghost:
                return fb.ghost[nm]
        if nm == 'True':
            return mk_bool(True)
        if nm == 'False':
            return mk_bool(False)
        if nm == 'inf':
            return mk_float(float('inf'))
        if nm == 'NAME_':
            return SV(INT, z3.Int('tok_NAME'))
        raise Unsupported('spec name %s is not bound' % nm)

    def ev_Attribute(self, n, ctx):
        o = self.ev(n.value, ctx)
        if o.ty.kind == 'opt':
            o = opt_get(o)
        return ctx.st.get_field(o, n.attr)

    def ev_Subscript(self, n, ctx):
        o = self.ev(n.value, ctx)
        if o.ty.kind == 'opt':
            o = opt_get(o)
        sl = n.slice
        if isinstance(sl, ast.Slice):
            if o.ty.kind == 'str':
                lo = self.ev(sl.lower, ctx).t if sl.lower is not None else None
                hi = self.ev(sl.upper, ctx).t if sl.upper is not None else None
                return SV(STR, ops.slice_str(o.t, lo, hi))
            raise Unsupported('spec slice of ' + str(o.ty))
        i = self.ev(sl, ctx)
        if o.ty.kind == 'seq':
            return unpack(o.ty.args[0], z3.Select(o.t, ops.to_int(i).t))
        if o.ty.kind == 'list':
            idx = ops.to_int(i).t
            if isinstance(sl, ast.UnaryOp) and isinstance(sl.op, ast.USub):
                idx = ctx.st.list_len(o) + idx
            return ctx.st.list_get(o, idx)
        if o.ty.kind == 'tup':
            if not isinstance(sl, ast.Constant):
                raise Unsupported('tuple index must be constant')
            items = o.items if o.items is not None else unpack(o.ty, o.t).items
            return items[sl.value]
        if o.ty.kind == 'str':
            idx = ops.to_int(i).t
            if isinstance(sl, ast.UnaryOp):
                idx = z3.Length(o.t) + idx
            return SV(STR, z3.SubString(o.t, idx, 1))
        if o.ty.kind in ('dict', 'ref'):
            return ctx.st.dict_get(o, i)
        raise Unsupported('spec subscript of ' + str(o.ty))

    def ev_UnaryOp(self, n, ctx):
        v = self.ev(n.operand, ctx)
        if isinstance(n.op, ast.Not):
            return mk_bool(z3.Not(self.as_bool(v, ctx)))
        if isinstance(n.op, ast.USub):
            return ops.neg(v)
        if isinstance(n.op, ast.UAdd):
            return v
        raise Unsupported('spec unary')

    def ev_BoolOp(self, n, ctx):
        is_and = isinstance(n.op, ast.And)
        vs = []
        for x in n.values:
            b = self.as_bool(self.ev(x, ctx), ctx)
            sb = z3.simplify(b)
            if is_and and z3.is_false(sb):
                return mk_bool(False)
            if (not is_and) and z3.is_true(sb):
                return mk_bool(True)
            vs.append(b)
        return mk_bool(z3.And(*vs) if is_and else z3.Or(*vs))

    def ev_IfExp(self, n, ctx):
        c = z3.simplify(self.as_bool(self.ev(n.test, ctx), ctx))
        if z3.is_true(c):
            return self.ev(n.body, ctx)
        if z3.is_false(c):
            return self.ev(n.orelse, ctx)
        a, b = self.ev(n.body, ctx), self.ev(n.orelse, ctx)
        if a.ty.kind == 'int' and b.ty.kind == 'float':
            a = ops.to_float(a)
        if b.ty.kind == 'int' and a.ty.kind == 'float':
            b = ops.to_float(b)
        return SV(a.ty, z3.If(c, pack(a), pack(b, a.ty)))

    def ev_BinOp(self, n, ctx):
        a, b = self.ev(n.left, ctx), self.ev(n.right, ctx)
        op = type(n.op).__name__
        if a.ty.kind == 'str' and b.ty.kind == 'str' and op == 'Add':
            return SV(STR, z3.Concat(a.t, b.t))
        if op == 'Div':
            return ops.divide(a, b)
        if op in ('Add', 'Sub', 'Mult'):
            return ops.arith(op, a, b)
        raise Unsupported('spec binop ' + op)

    def ev_Compare(self, n, ctx):
        left = self.ev(n.left, ctx)
        out = []
        for op, rn in zip(n.ops, n.comparators):
            right = self.ev(rn, ctx)
            out.append(self.cmp(op, left, right, ctx))
            left = right
        return mk_bool(z3.And(*out) if len(out) > 1 else out[0])

    def cmp(self, op, a, b, ctx):
        o = type(op).__name__
        if o in ('Is', 'IsNot'):
            if b.ty.kind == 'none':
                r = opt_is_none(a)
            elif a.ty.kind == 'none':
                r = opt_is_none(b)
            else:
                r = pack(a) == pack(b, a.ty)
            return r if o == 'Is' else z3.Not(r)
        if o in ('In', 'NotIn'):
            r = self.member(a, b, ctx)
            return r if o == 'In' else z3.Not(r)
        if a.ty.kind == 'opt' or b.ty.kind == 'opt':
            if a.ty.kind == 'opt' and b.ty.kind != 'opt':
                r = z3.And(z3.Not(opt_is_none(a)), ops.py_eq(opt_get(a), b)) if b.ty.kind != 'none' else opt_is_none(a)
            elif b.ty.kind == 'opt' and a.ty.kind != 'opt':
                r = z3.And(z3.Not(opt_is_none(b)), ops.py_eq(a, opt_get(b))) if a.ty.kind != 'none' else opt_is_none(b)
            else:
                r = a.t == b.t
            if o == 'Eq':
                return r
            if o == 'NotEq':
                return z3.Not(r)
            raise Unsupported('ordering on optional')
        if o == 'Eq':
            if a.ty.kind == 'float' or b.ty.kind == 'float':
                return ops.num_cmp('Eq', a, b)
            return ops.py_eq(a, b)
        if o == 'NotEq':
            if a.ty.kind == 'float' or b.ty.kind == 'float':
                return ops.num_cmp('NotEq', a, b)
            return z3.Not(ops.py_eq(a, b))
        if a.ty.kind == 'str' and b.ty.kind == 'str':
            if o == 'Lt':
                return a.t < b.t
            if o == 'LtE':
                return a.t <= b.t
            if o == 'Gt':
                return b.t < a.t
            if o == 'GtE':
                return b.t <= a.t
        return ops.num_cmp(o, a, b)

    def member(self, x, c, ctx):
        if c.ty.kind == 'opt':
            c = opt_get(c)
        if c.ty.kind == 'str':
            return z3.Contains(c.t, x.t)
        if c.ty.kind == 'list':
            j = z3.Int(fresh_name('m'))
            n = ctx.st.list_len(c)
            e = ctx.st.list_get(c, j)
            return z3.Exists([j], z3.And(0 <= j, j < n, ops.same_value(e, x)))
        if c.ty.kind == 'tup':
            items = c.items if c.items is not None else unpack(c.ty, c.t).items
            return z3.Or(*[ops.py_eq(x, y) for y in items])
        if c.ty.kind in ('dict', 'ref'):
            return ctx.st.dict_has(c, x)
        raise Unsupported('spec membership in ' + str(c.ty))

    def ev_Tuple(self, n, ctx):
        items = [self.ev(e, ctx) for e in n.elts]
        return SV(Tup(*[x.ty for x in items]), None, items)

    def quant(self, gen_node, ctx, universal):
        """all(P for j in range(a,b)) / any(...);  also `for x in <list>`"""
        if not isinstance(gen_node, ast.GeneratorExp):
            raise Unsupported('quantifier form')
        if len(gen_node.generators) > 1:
            # nested quantifier: all(P for i in A for j in B) == all(all(P for j in B) for i in A)
            inner = ast.GeneratorExp(elt=gen_node.elt, generators=gen_node.generators[1:])
            call = ast.Call(func=ast.Name(id='all' if universal else 'any', ctx=ast.Load()), args=[inner], keywords=[])
            gen_node = ast.GeneratorExp(elt=call, generators=gen_node.generators[:1])
        g = gen_node.generators[0]
        if not isinstance(g.target, ast.Name):
            raise Unsupported('quantifier target')
        it = g.iter
        j = z3.Int(fresh_name(g.target.id))
        if isinstance(it, ast.Call) and isinstance(it.func, ast.Name) and it.func.id == 'range':
            a = [self.ev(x, ctx) for x in it.args]
            lo, hi = (mk_int(0).t, a[0].t) if len(a) == 1 else (a[0].t, a[1].t)
            c2 = ctx.bind(g.target.id, SV(INT, j))
            guard = z3.And(lo <= j, j < hi)
        elif isinstance(it, ast.Call) and isinstance(it.func, ast.Name) and it.func.id in ('strings', 'ints', 'reals', 'refs'):
            kind = it.func.id
            if kind == 'strings':
                jv = z3.String(fresh_name(g.target.id))
                sv = SV(STR, jv)
            elif kind == 'ints':
                jv = j
                sv = SV(INT, j)
            elif kind == 'refs':
                jv = j
                sv = SV(Ref(it.args[0].value if isinstance(it.args[0], ast.Constant) else it.args[0].id), j)
            else:
                jv = z3.Real(fresh_name(g.target.id))
                sv = mk_float(jv)
            c2 = ctx.bind(g.target.id, sv)
            guard = z3.BoolVal(True)
            if kind == 'refs':
                # objects of the class (or a subclass) that are allocated in the state the formula is read in
                guard = z3.And(j > 0, j < ctx.st.alloc, ctx.st.tag_fact(sv))
            conds = [self.as_bool(self.ev(c, c2), c2) for c in g.ifs]
            body = self.as_bool(self.ev(gen_node.elt, c2), c2)
            if universal:
                return mk_bool(z3.ForAll([jv], z3.Implies(z3.And(guard, *conds), body)))
            return mk_bool(z3.Exists([jv], z3.And(guard, body, *conds)))
        else:
            lst = self.ev(it, ctx)
            if lst.ty.kind != 'list':
                raise Unsupported('quantifier over ' + str(lst.ty))
            c2 = ctx.bind(g.target.id, ctx.st.list_get(lst, j))
            guard = z3.And(0 <= j, j < ctx.st.list_len(lst))
        conds = [self.as_bool(self.ev(c, c2), c2) for c in g.ifs]
        body = self.as_bool(self.ev(gen_node.elt, c2), c2)
        full = z3.Implies(z3.And(guard, *conds), body) if universal else z3.And(guard, body, *conds)
        pats = index_patterns(full, j)
        if universal:
            return mk_bool(forall([j], full, patterns=pats) if pats else z3.ForAll([j], full))
        if pats:
            try:
                return mk_bool(z3.Exists([j], full, patterns=pats))
            except z3.Z3Exception:
                pass
        return mk_bool(z3.Exists([j], full))

    def ev_Call(self, n, ctx):
        if isinstance(n.func, ast.Attribute):
            # method-style spec helpers on strings
            o = self.ev(n.func.value, ctx)
            name = n.func.attr
            args = [self.ev(a, ctx) for a in n.args]
            if o.ty.kind == 'str':
                if name == 'startswith':
                    return mk_bool(z3.PrefixOf(args[0].t, o.t))
                if name == 'endswith':
                    return mk_bool(z3.SuffixOf(args[0].t, o.t))
                if name == 'lower':
                    return SV(STR, ops.Lower(o.t))
                if name == 'strip':
                    ctx.side.extend(ops.strip_facts(o.t))
                    return SV(STR, ops.Strip(o.t))
            raise Unsupported('spec method ' + name)
        if not isinstance(n.func, ast.Name):
            raise Unsupported('spec call form')
        f = n.func.id
        if f == 'old':
            c2 = ctx.with_state(ctx.old)
            return self.ev(n.args[0], c2)
        if f == 'heap_now':
            # ghost snapshot of the whole state (used with at(H, e) and *_since(H, ...))
            return SV(Ty('heap'), None, None, ctx.st.fork())
        if f == 'at':
            h = self.ev(n.args[0], ctx)
            if h.ty.kind != 'heap':
                raise Unsupported('at(H, e): H must be a heap snapshot')
            c2 = ctx.with_state(h.meta)
            n0 = len(h.meta.pc)
            v = self.ev(n.args[1], c2)
            if len(h.meta.pc) > n0:       # well-formedness facts of values read in the snapshot
                ctx.side.extend(h.meta.pc[n0:])
            return v
        if f == 'entry':
            c2 = ctx.with_state(ctx.entry)
            return self.ev(n.args[0], c2)
        if f == 'all':
            return self.quant(n.args[0], ctx, True)
        if f == 'any':
            return self.quant(n.args[0], ctx, False)
        if f in REG['specfns']:
            args = [self.ev(a, ctx) for a in n.args]
            return REG['specfns'][f](ctx, *args)
        if f == 'implies':
            a0 = self.as_bool(self.ev(n.args[0], ctx), ctx)
            if z3.is_false(z3.simplify(a0)):
                return mk_bool(True)
            return mk_bool(z3.Implies(a0, self.as_bool(self.ev(n.args[1], ctx), ctx)))
        args = [self.ev(a, ctx) for a in n.args]
        if f == 'snap':
            # immutable snapshot (sequence value) of a list in the current state
            x = args[0]
            if x.ty.kind != 'list':
                raise Unsupported('snap of ' + str(x.ty))
            return SV(Ty('seq', x.ty.args[0]), ctx.st.list_elems(x), None, ctx.st.list_len(x))
        if f == 'seq_eq':
            # list (now) has exactly the contents of the snapshot
            x, q = args
            j = z3.Int(fresh_name('j'))
            n_ = ctx.st.list_len(x)
            el = ctx.st.list_elems(x)
            return mk_bool(z3.And(n_ == q.meta, forall([j], z3.Implies(z3.And(0 <= j, j < n_), z3.Select(el, j) == z3.Select(q.t, j)),
                                                       patterns=[z3.Select(el, j)])))
        if f == 'len':
            x = args[0]
            if x.ty.kind == 'opt':
                x = opt_get(x)
            if x.ty.kind == 'str':
                return SV(INT, z3.Length(x.t))
            if x.ty.kind == 'list':
                return SV(INT, ctx.st.list_len(x))
            if x.ty.kind == 'seq':
                return SV(INT, x.meta)
            if x.ty.kind == 'tup':
                return mk_int(len(x.ty.args))
            if x.ty.kind in ('dict', 'ref'):
                return SV(INT, ctx.st.list_len(ctx.st.dict_keylist(x)))
            raise Unsupported('spec len of ' + str(x.ty))
        if f == 'implies':
            return mk_bool(z3.Implies(self.as_bool(args[0], ctx), self.as_bool(args[1], ctx)))
        if f == 'iff':
            return mk_bool(self.as_bool(args[0], ctx) == self.as_bool(args[1], ctx))
        if f == 'same':
            a, b = args
            if a.ty.kind == 'opt' or b.ty.kind == 'opt':
                ty = a.ty if a.ty.kind == 'opt' else b.ty
                return mk_bool(pack(a, ty) == pack(b, ty))
            return mk_bool(ops.same_value(a, b))
        if f == 'fresh':
            return mk_bool(z3.And(args[0].t >= ctx.old.alloc, args[0].t < ctx.st.alloc))
        if f == 'allocated':
            return mk_bool(z3.And(args[0].t > 0, args[0].t < ctx.st.alloc))
        if f == 'is_none':
            return mk_bool(opt_is_none(args[0]))
        if f == 'get':
            return opt_get(args[0])
        if f == 'abs':
            return ops.absval(args[0])
        if f == 'max':
            return ops.py_max2(args[0], args[1])
        if f == 'min':
            return ops.py_min2(args[0], args[1])
        if f == 'float':
            return ops.to_float(args[0])
        if f == 'isfinite':
            x = ops.to_float(args[0])
            return mk_bool(ops.xr_tag(x.t) == FIN) if ops.is_xreal() else mk_bool(True)
        if f == 'isnan':
            x = ops.to_float(args[0])
            return mk_bool(ops.xr_tag(x.t) == NAN) if ops.is_xreal() else mk_bool(False)
        if f == 'realval':
            x = ops.to_float(args[0])
            return SV(FLOAT, x.t) if not ops.is_xreal() else SV(Ty('real'), ops.xr_val(x.t))
        if f == 'keys':
            return ctx.st.dict_keylist(args[0])
        if f == 'has':
            return mk_bool(ctx.st.dict_has(args[0], args[1]))
        if f == 'unchanged':
            # list object: same length and same elements in the post-state as in the pre-state
            a = args[0]
            if a.ty.kind == 'opt':
                a = opt_get(a)
            if a.ty.kind == 'list':
                return mk_bool(z3.And(ctx.st.list_len(a) == ctx.old.list_len(a), ctx.st.list_elems(a) == ctx.old.list_elems(a)))
            raise Unsupported('unchanged(%s)' % a.ty)
        if f == 'elems_eq':
            # same list object contents: len and all elements equal between two states / lists
            a, b = args
            return mk_bool(z3.And(ctx.st.list_len(a) == ctx.st.list_len(b), ctx.st.list_elems(a) == ctx.st.list_elems(b)))
        raise Unsupported('spec function ' + f)
