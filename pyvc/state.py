"""
state.py - symbolic state: locals, SSA heap (per-family arrays), path condition, control continuations.
"""
import z3
from .types import *

FAM_SORTS = {}      # family name -> z3 sort (global, so that every state agrees on the initial constant)


def arr(dom, rng):
    return z3.ArraySort(dom, rng)


def fam_init(name):
    return z3.Const('H0!' + name, FAM_SORTS[name])


class ClassSpec(object):
    def __init__(self, name, fields=None, dict_kv=None, bases=()):
        self.name = name
        self.fields = dict(fields or {})
        self.dict_kv = dict_kv
        self.bases = tuple(bases)     # used for classes that do not exist in the repo (spec-only)


class ClassTable(object):
    def __init__(self, repo):
        self.repo = repo
        self.specs = {}

    def add(self, cs):
        if cs.name in self.specs:
            self.specs[cs.name].fields.update(cs.fields)
            if cs.dict_kv:
                self.specs[cs.name].dict_kv = cs.dict_kv
        else:
            self.specs[cs.name] = cs

    def mro(self, cname):
        m = self.repo.mro(cname)
        cs = self.specs.get(cname)
        if cs is not None:
            for b in cs.bases:
                for x in self.mro(b):
                    if x not in m:
                        m.append(x)
        return m

    def field_decl(self, cname, fname):
        for c in self.mro(cname):
            cs = self.specs.get(c)
            if cs is not None and fname in cs.fields:
                return c, cs.fields[fname]
        return None, None

    def dict_kv(self, cname):
        for c in self.mro(cname):
            cs = self.specs.get(c)
            if cs is not None and cs.dict_kv:
                return cs.dict_kv
        return None

    def is_subclass(self, c, base):
        return base in self.mro(c)


class Ctl(object):
    """continuations of the enclosing constructs (immutable; shared between forked states)"""
    __slots__ = ('ret', 'brk', 'cont', 'handler', 'depth', 'fname', 'inl')

    def __init__(self, ret=None, brk=None, cont=None, handler=None, depth=0, fname='', inl=None):
        self.ret, self.brk, self.cont, self.handler, self.depth, self.fname = ret, brk, cont, handler, depth, fname
        self.inl = inl        # inlined callee frame: (spec, entry state of the callee, instance number, FuncInfo)

    def but(self, **kw):
        c = Ctl(self.ret, self.brk, self.cont, self.handler, self.depth, self.fname, self.inl)
        for k, v in kw.items():
            setattr(c, k, v)
        return c


class ExcV(object):
    def __init__(self, cls, origin=''):
        self.cls = cls
        self.origin = origin

    def __repr__(self):
        return 'ExcV(%s @%s)' % (self.cls, self.origin)


class State(object):
    def __init__(self, ctab):
        self.ctab = ctab
        self.env = {}
        self.heap = {}
        self.alloc = z3.Int('alloc0')
        self.pc = []
        self.ctl = Ctl()
        self.cur_exc = None
        self.trace = ()
        self.ghost = {}
        self.dead = False

    def fork(self):
        s = State.__new__(State)
        s.ctab = self.ctab
        s.env = dict(self.env)
        s.heap = dict(self.heap)
        s.alloc = self.alloc
        s.pc = list(self.pc)
        s.ctl = self.ctl
        s.cur_exc = self.cur_exc
        s.trace = self.trace
        s.ghost = dict(self.ghost)
        s.dead = False
        if hasattr(self, 'inv_tags'):
            s.inv_tags = self.inv_tags
        if hasattr(self, 'entry'):
            s.entry = self.entry
        return s

    def assume(self, *conds):
        for c in conds:
            if c is None:
                continue
            if z3.is_true(c):
                continue
            self.pc.append(c)

    def note(self, s):
        self.trace = self.trace + (s,)

    # ---- heap families ---------------------------------------------------------------------
    def H(self, name, sort=None):
        if name not in self.heap:
            if name not in FAM_SORTS:
                if sort is None:
                    raise Unsupported('unknown heap family ' + name)
                FAM_SORTS[name] = sort
            self.heap[name] = fam_init(name)
        return self.heap[name]

    def setH(self, name, term):
        self.heap[name] = term

    def field_family(self, cname, fname):
        decl, ty = self.ctab.field_decl(cname, fname)
        if decl is None:
            raise Unsupported('field %s.%s has no declared type in the specs' % (cname, fname))
        name = 'f.%s.%s' % (decl, fname)
        self.H(name, arr(z3.IntSort(), sort_of(ty)))
        return name, ty

    def get_field(self, obj, fname):
        if obj.ty.kind != 'ref':
            raise Unsupported('attribute %s of %s' % (fname, obj.ty))
        name, ty = self.field_family(obj.ty.args[0], fname)
        v = unpack(ty, z3.Select(self.heap[name], obj.t))
        self.assume_wf(v)
        return v

    def set_field(self, obj, fname, sv):
        name, ty = self.field_family(obj.ty.args[0], fname)
        self.heap[name] = z3.Store(self.heap[name], obj.t, pack(sv, ty))

    def assume_wf(self, v):
        """facts that hold for every value read from the heap"""
        ty = v.ty
        if ty.kind == 'opt':
            inner = ty.args[0]
            if inner.is_reflike:
                self.assume(z3.And(v.t >= 0, v.t < self.alloc))
            return
        if ty.is_reflike:
            self.assume(z3.And(v.t > 0, v.t < self.alloc))
            self.assume(self.tag_fact(v))
        elif ty.kind == 'float' and FLOAT_MODE[0] == 'xreal':
            from .ops import xr_wf
            self.assume(xr_wf(v.t))
        elif ty.kind == 'tup' and v.items:
            for x in v.items:
                self.assume_wf(x)

    def tag_fact(self, v):
        """dynamic type tag of a reference: objects of unrelated static types are distinct objects"""
        self.H('tyof', arr(z3.IntSort(), z3.IntSort()))
        t = z3.Select(self.heap['tyof'], v.t)
        if v.ty.kind == 'ref':
            c = v.ty.args[0]
            subs = [x for x in self.ctab.repo.classes if self.ctab.is_subclass(x, c)]
            if c not in subs:
                subs.append(c)
            return z3.Or(*[t == cls_tag(Ref(x)) for x in subs])
        return t == cls_tag(v.ty)

    def set_tag(self, v):
        self.H('tyof', arr(z3.IntSort(), z3.IntSort()))
        self.heap['tyof'] = z3.Store(self.heap['tyof'], v.t, z3.IntVal(cls_tag(v.ty)))

    # ---- lists -----------------------------------------------------------------------------
    def len_family(self, elem_ty):
        """list lengths are kept per element sort, like the element arrays"""
        name = 'len.' + sortkey(elem_ty)
        self.H(name, arr(z3.IntSort(), z3.IntSort()))
        return name

    def _len_arr(self, elem_ty=None):
        return self.heap[self.len_family(elem_ty)]

    def el_family(self, elem_ty):
        name = 'el.' + sortkey(elem_ty)
        self.H(name, arr(z3.IntSort(), arr(z3.IntSort(), sort_of(elem_ty))))
        return name

    def list_len(self, lst):
        n = z3.Select(self._len_arr(lst.ty.args[0]), lst.t)
        self.assume(n >= 0)
        return n

    def list_elems(self, lst):
        """the Int->elem array of a list"""
        fam = self.el_family(lst.ty.args[0])
        return z3.Select(self.heap[fam], lst.t)

    def list_get(self, lst, idx):
        ety = lst.ty.args[0]
        v = unpack(ety, z3.Select(self.list_elems(lst), idx))
        return v

    def list_set_elems(self, lst, elems_arr, n=None):
        fam = self.el_family(lst.ty.args[0])
        self.heap[fam] = z3.Store(self.heap[fam], lst.t, elems_arr)
        if n is not None:
            lf = self.len_family(lst.ty.args[0])
            self.heap[lf] = z3.Store(self.heap[lf], lst.t, n)

    def list_store(self, lst, idx, sv):
        ety = lst.ty.args[0]
        self.list_set_elems(lst, z3.Store(self.list_elems(lst), idx, pack(sv, ety)))

    def list_append(self, lst, sv):
        ety = lst.ty.args[0]
        n = self.list_len(lst)
        old = self.list_elems(lst)
        # the new element array is a named constant (equal to the Store term): `new[n]` is then a
        # ground term that survives simplification and serves as a quantifier trigger
        new = z3.Const(fresh_name('app'), old.sort())
        j = z3.Int(fresh_name('j'))
        self.assume(new == z3.Store(old, n, pack(sv, ety)), z3.Select(new, n) == pack(sv, ety),
                    forall([j], z3.Implies(j != n, z3.Select(new, j) == z3.Select(old, j)), patterns=[z3.Select(old, j)]))
        self.list_set_elems(lst, new, n + 1)

    def new_ref(self):
        r = self.alloc
        self.alloc = self.alloc + 1
        return r

    def new_list(self, elem_ty, items=()):
        r = self.new_ref()
        lst = SV(List(elem_ty), r)
        fam = self.el_family(elem_ty)
        a = z3.Select(self.heap[fam], r)
        for i, x in enumerate(items):
            a = z3.Store(a, z3.IntVal(i), pack(x, elem_ty))
        self.list_set_elems(lst, a, z3.IntVal(len(items)))
        self.set_tag(lst)
        return lst

    def new_list_sym(self, elem_ty, n, elems_arr=None):
        """fresh list of symbolic length n (elements unconstrained unless elems_arr given)"""
        r = self.new_ref()
        lst = SV(List(elem_ty), r)
        fam = self.el_family(elem_ty)
        if elems_arr is None:
            elems_arr = z3.Const(fresh_name('elems'), arr(z3.IntSort(), sort_of(elem_ty)))
        self.list_set_elems(lst, elems_arr, n)
        self.set_tag(lst)
        return lst

    # ---- dicts -----------------------------------------------------------------------------
    def dict_types(self, d):
        if d.ty.kind == 'dict':
            return d.ty.args
        if d.ty.kind == 'ref':
            kv = self.ctab.dict_kv(d.ty.args[0])
            if kv:
                return kv
        raise Unsupported('not a dict: ' + str(d.ty))

    def _dh(self, kty, vty=None):
        # key-presence arrays are kept per (key sort, value sort), like the value arrays: dicts of different value
        # types never share a heap family
        name = 'dh.%s.%s' % (sortkey(kty), sortkey(vty))
        self.H(name, arr(z3.IntSort(), arr(sort_of(kty), z3.BoolSort())))
        return name

    def _dv(self, kty, vty):
        name = 'dv.%s.%s' % (sortkey(kty), sortkey(vty))
        self.H(name, arr(z3.IntSort(), arr(sort_of(kty), sort_of(vty))))
        return name

    def _dk(self):
        self.H('dk', arr(z3.IntSort(), z3.IntSort()))
        return 'dk'

    def dict_has(self, d, key):
        kty, vty = self.dict_types(d)
        return z3.Select(z3.Select(self.heap[self._dh(kty, vty)], d.t), pack(key, kty))

    def dict_get(self, d, key):
        kty, vty = self.dict_types(d)
        v = unpack(vty, z3.Select(z3.Select(self.heap[self._dv(kty, vty)], d.t), pack(key, kty)))
        return v

    def dict_keylist(self, d):
        """ghost list of the keys in insertion order"""
        kty, vty = self.dict_types(d)
        r = z3.Select(self.heap[self._dk()], d.t)
        kl = SV(List(kty), r)
        self.assume(z3.And(r > 0, r < self.alloc), self.tag_fact(kl))
        return kl

    def dict_set(self, d, key, val):
        kty, vty = self.dict_types(d)
        k = pack(key, kty)
        dh, dv = self._dh(kty, vty), self._dv(kty, vty)
        had = z3.Select(z3.Select(self.heap[dh], d.t), k)
        # key order: append when new.  The key list is replaced by a fresh ghost list object so
        # that aliasing with earlier snapshots of the key list (iteration) stays sound.
        kl = self.dict_keylist(d)
        n = self.list_len(kl)
        elems = self.list_elems(kl)
        newkl = self.new_list_sym(kty, z3.If(had, n, n + 1), z3.If(had, elems, z3.Store(elems, n, k)))
        self._dk()
        self.heap['dk'] = z3.Store(self.heap['dk'], d.t, newkl.t)
        self.heap[dh] = z3.Store(self.heap[dh], d.t, z3.Store(z3.Select(self.heap[dh], d.t), k, z3.BoolVal(True)))
        self.heap[dv] = z3.Store(self.heap[dv], d.t, z3.Store(z3.Select(self.heap[dv], d.t), k, pack(val, vty)))

    def new_dict(self, kty, vty, cls=None):
        r = self.new_ref()
        d = SV(Dict(kty, vty) if cls is None else Ref(cls), r)
        self.set_tag(d)
        dh = self._dh(kty, vty)
        self._dv(kty, vty)
        self.heap[dh] = z3.Store(self.heap[dh], r, z3.K(sort_of(kty), z3.BoolVal(False)))
        kl = self.new_list(kty, [])
        self._dk()
        self.heap['dk'] = z3.Store(self.heap['dk'], r, kl.t)
        return d

    def dict_key_axioms(self, d):
        """T-LIB: the key list enumerates exactly the keys, without repetition"""
        kty, vty = self.dict_types(d)
        kl = self.dict_keylist(d)
        n = self.list_len(kl)
        elems = self.list_elems(kl)
        has = z3.Select(self.heap[self._dh(kty, vty)], d.t)
        ks = sort_of(kty)
        idx = z3.Function(fresh_name('kidx'), ks, z3.IntSort())
        i = z3.Int(fresh_name('i'))
        k = z3.Const(fresh_name('k'), ks)
        return [forall([i], z3.Implies(z3.And(0 <= i, i < n),
                                          z3.And(z3.Select(has, z3.Select(elems, i)), idx(z3.Select(elems, i)) == i)),
                          patterns=[z3.Select(elems, i)]),
                forall([k], z3.Implies(z3.Select(has, k),
                                          z3.And(0 <= idx(k), idx(k) < n, z3.Select(elems, idx(k)) == k)),
                          patterns=[z3.Select(has, k)])]
