"""
sym.py - symbolic executor over the real AST of functions in /repo (continuation-passing style).

exec:   ex(stmt, st, k)      k(st)           normal completion
eval:   ev(expr, st, k)      k(st, SV)       one call of k per outcome (paths fork)
raise:  st.ctl.handler(st, ExcV)
"""
import ast
import fnmatch
import re
import z3
from .types import *
from . import ops
from .state import State, ExcV, Ctl, FAM_SORTS, arr
from .spec import SpecEval, SpecCtx, REG, LoopSpec, opt_is_none, opt_get

BUILTIN_EXC = {
    'BaseException': None, 'Exception': 'BaseException', 'ArithmeticError': 'Exception',
    'ZeroDivisionError': 'ArithmeticError', 'OverflowError': 'ArithmeticError',
    'FloatingPointError': 'ArithmeticError',
    'LookupError': 'Exception', 'KeyError': 'LookupError', 'IndexError': 'LookupError',
    'ValueError': 'Exception', 'TypeError': 'Exception', 'NameError': 'Exception',
    'AttributeError': 'Exception', 'RuntimeError': 'Exception', 'NotImplementedError': 'RuntimeError',
    'SyntaxError': 'Exception', 'StopIteration': 'Exception', 'AssertionError': 'Exception',
    'Warning': 'Exception', 'SyntaxWarning': 'Warning', 'TokenError': 'Exception',
    'UnicodeError': 'ValueError', 'OtherError': 'Exception',
}


class Obligation(object):
    def __init__(self, name, hyps, goal, line=None, trace=(), kind='check', fn=''):
        self.name = name
        self.hyps = list(hyps)
        self.goal = goal
        self.line = line
        self.trace = trace
        self.kind = kind       # 'check' (must be valid) | 'cover' (hyps must be satisfiable)
        self.fn = fn
        self.verdict = None
        self.backend = None
        self.ms = 0
        self.model = None
        self.reason = ''
        self.watch = {}        # name -> z3 term, evaluated in a counter-model for replay


class PathLimit(Exception):
    pass


class Engine(object):
    def __init__(self, repo, ctab, prune=True, max_paths=4000):
        self.repo = repo
        self.ctab = ctab
        self.speceval = SpecEval(self)
        self.obligations = []
        self.prune = prune
        self.paths = 0
        self.max_paths = max_paths
        self.cur_spec = None
        self.cur_fi = None
        self.inlined = set()
        self.contracts_used = set()
        self.externs_used = set()
        self.assumptions = []
        self.externs = {}
        self.method_externs = {}
        self.loop_counter = None
        self.epoch = 0
        self._prune_solver_calls = 0
        self.outcomes = None
        from . import externs
        externs.install(self)
        externs.install_tokenize(self)
        for hook in externs.EXTRA:
            hook(self)

    # ---- bookkeeping -----------------------------------------------------------------------
    def oblige(self, name, st, goal, line=None, kind='check', watch=None):
        o = Obligation('%s/%s' % (self.cur_spec.name, name), st.pc, goal, line, st.trace, kind, self.cur_spec.qualname)
        if watch:
            o.watch = dict(watch)
        o.entry = getattr(self, 'entry_state', None)
        self.obligations.append(o)
        return o

    def feasible(self, st, cond=None):
        """path pruning: False only when the path condition is certainly unsatisfiable (sound to skip the path)"""
        if not self.prune:
            return True
        self._prune_solver_calls += 1
        s = z3.Solver()
        s.set('timeout', 400)
        s.add(*st.pc)
        if cond is not None:
            s.add(cond)
        return s.check() != z3.unsat

    def branch(self, st, cond, k_true, k_false, note=None):
        """fork on a z3 Bool"""
        c = z3.simplify(cond)
        if z3.is_true(c):
            return k_true(st)
        if z3.is_false(c):
            return k_false(st)
        f_t = self.feasible(st, c)
        f_f = self.feasible(st, z3.Not(c))
        if f_t and f_f:
            self.paths += 1
            if self.paths > self.max_paths:
                raise PathLimit('more than %d paths' % self.max_paths)
            s2 = st.fork()
            st.assume(c)
            if note:
                st.note(note + '=T')
            s2.assume(z3.Not(c))
            if note:
                s2.note(note + '=F')
            k_true(st)
            k_false(s2)
        elif f_t:
            st.assume(c)
            k_true(st)
        elif f_f:
            st.assume(z3.Not(c))
            k_false(st)
        # neither: dead path

    def raise_(self, st, cls, origin=''):
        exc = cls if isinstance(cls, ExcV) else ExcV(cls, origin)
        h = st.ctl.handler
        if h is None:
            raise Unsupported('exception with no handler')
        h(st, exc)

    def exc_is_sub(self, cls, base):
        c = cls
        seen = 0
        while c is not None and seen < 20:
            if c == base:
                return True
            if c in BUILTIN_EXC:
                c = BUILTIN_EXC[c]
            elif c in self.repo.classes:
                bs = self.repo.classes[c].base_names
                c = bs[0] if bs else None
            else:
                c = None
            seen += 1
        return False

    def is_exc_class(self, name):
        return name in BUILTIN_EXC or (name in self.repo.classes and self.exc_is_sub(name, 'BaseException'))

    # ---- havoc -----------------------------------------------------------------------------
    def havoc(self, st, patterns):
        self.epoch += 1
        ep = self.epoch
        for name in list(FAM_SORTS):
            if name == 'tyof':
                # dynamic type tags are written once, at allocation, and never change: the array is kept (entries of objects
                # allocated in earlier iterations are simply unspecified in it, which is sound)
                continue
            if any(fnmatch.fnmatchcase(name, p) for p in patterns):
                st.heap[name] = z3.Const('Hh!%s!%d' % (name, ep), FAM_SORTS[name])
        na = z3.Int(fresh_name('alloc'))
        st.assume(na >= st.alloc)
        st.alloc = na
        return ep

    # ---- expressions -------------------------------------------------------------------------
    def ev(self, n, st, k):
        m = getattr(self, 'ev_' + type(n).__name__, None)
        if m is None:
            raise Unsupported('expression node %s (line %s)' % (type(n).__name__, getattr(n, 'lineno', '?')))
        return m(n, st, k)

    def ev_seq(self, nodes, st, k, acc=None):
        acc = acc or []
        if not nodes:
            return k(st, acc)
        return self.ev(nodes[0], st, lambda s, v: self.ev_seq(nodes[1:], s, k, acc + [v]))

    def resolve_opt(self, st, v, k):
        """values of Optional type are resolved by forking as soon as they are produced"""
        if v.ty.kind != 'opt':
            return k(st, v)
        isn = opt_is_none(v)
        inner = opt_get(v)
        if inner.ty.is_reflike:
            pass
        def some(s):
            s.assume_wf(inner)
            k(s, inner)
        self.branch(st, isn, lambda s: k(s, NONE_V), some, note='isNone')

    def ev_Constant(self, n, st, k):
        v = n.value
        if v is None:
            return k(st, NONE_V)
        if isinstance(v, bool):
            return k(st, mk_bool(v))
        if isinstance(v, int):
            return k(st, mk_int(v))
        if isinstance(v, float):
            return k(st, mk_float(v))
        if isinstance(v, str):
            return k(st, mk_str(v))
        raise Unsupported('constant %r' % (v,))

    def ev_Name(self, n, st, k):
        nm = n.id
        if nm in st.env:
            v = st.env[nm]
            if v.ty.kind == 'opt':
                return self.resolve_opt(st, v, k)
            return k(st, v)
        if getattr(n, '_is_ghost', False) and nm in st.ghost:
            return k(st, st.ghost[nm])       # ghost code may read loop-index ghosts
        if nm == 'is_python_3':
            return k(st, mk_bool(True))
        if self.is_exc_class(nm):
            return k(st, SV(EXC, None, None, nm))        # an exception class used as a value
        if nm in self.TYPE_TAGS or nm in self.repo.classes:
            return k(st, SV(Ty('meta'), self.type_tag_of_name(self, nm)))      # a type used as a value: type(x) == T
        mc = self.repo.module_consts.get((self.cur_module(st), nm))
        if mc is not None:
            return self.ev(mc, st, k)
        tok = {'NAME': 1, 'NUMBER': 2, 'OP': 54, 'ENDMARKER': 0, 'NEWLINE': 4, 'ENCODING': 62}
        if nm in tok:
            return k(st, SV(INT, z3.Int('tok_' + nm)))
        raise Unsupported('name %s (line %s)' % (nm, n.lineno))

    def cur_module(self, st):
        return st.ctl.fname.rsplit('.', 2)[0] if st.ctl.fname else ''

    def ev_Attribute(self, n, st, k):
        # class-level attributes: Logger.x, EconomicObject.ID, Parameters.x
        if isinstance(n.value, ast.Name) and n.value.id not in st.env and n.value.id in self.repo.classes:
            cname = n.value.id
            g = self.global_family(st, cname, n.attr)
            return self.resolve_opt(st, g, k)
        def got(s, o):
            if o.ty.kind != 'ref':
                raise Unsupported('attribute .%s of %s (line %s)' % (n.attr, o.ty, n.lineno))
            v = s.get_field(o, n.attr)
            self.resolve_opt(s, v, k)
        return self.ev(n.value, st, got)

    def global_family(self, st, cname, attr):
        decl, ty = self.ctab.field_decl(cname + '$static', attr)
        if decl is None:
            raise Unsupported('class attribute %s.%s has no declared type' % (cname, attr))
        name = 'g.%s.%s' % (cname, attr)
        st.H(name, sort_of(ty))
        v = unpack(ty, st.heap[name])
        st.assume_wf(v)
        return v

    def set_global(self, st, cname, attr, sv):
        decl, ty = self.ctab.field_decl(cname + '$static', attr)
        if decl is None:
            raise Unsupported('class attribute %s.%s has no declared type' % (cname, attr))
        name = 'g.%s.%s' % (cname, attr)
        st.H(name, sort_of(ty))
        st.heap[name] = pack(sv, ty)

    def ev_Tuple(self, n, st, k):
        return self.ev_seq(n.elts, st, lambda s, vs: k(s, SV(Tup(*[v.ty for v in vs]), None, vs)))

    def ev_List(self, n, st, k):
        def got(s, vs):
            ety = self.hint_type(n, 'list_elem')
            if ety is None:
                if not vs:
                    ety = self.hint_type(n, 'empty_list') or ANY
                else:
                    ety = vs[0].ty
                    if ety.kind == 'none':
                        ety = ANY
            lst = s.new_list(ety, vs)
            if not vs and ety == ANY:
                lst.meta = {'empty_literal': True}       # element type still open: fixed by the first typed use (field store)
            k(s, lst)
        return self.ev_seq(n.elts, st, got)

    def hint_type(self, node, what):
        """types that cannot be inferred locally (element type of `[]`) come from the sidecar spec:
        hints = {('empty_list', lineno-or-varname): Ty}"""
        h = self.cur_spec.hints if self.cur_spec else {}
        key = (what, getattr(node, 'lineno', None))
        if key in h:
            return h[key]
        tgt = getattr(node, '_target_name', None)
        if tgt is not None and (what, tgt) in h:
            return h[(what, tgt)]
        return None

    def ev_Dict(self, n, st, k):
        if n.keys:
            raise Unsupported('dict literal with entries')
        t = self.hint_type(n, 'empty_dict') or getattr(n, '_dict_type', None)
        if t is None:
            raise Unsupported('type of {} at line %s is not given in the spec hints' % n.lineno)
        return k(st, st.new_dict(t.args[0], t.args[1]))

    def ev_UnaryOp(self, n, st, k):
        def got(s, v):
            if isinstance(n.op, ast.Not):
                return self.truth(s, v, lambda s2, b: k(s2, mk_bool(z3.Not(b))))
            if isinstance(n.op, ast.USub):
                return k(s, ops.neg(v))
            if isinstance(n.op, ast.UAdd):
                return k(s, v)
            raise Unsupported('unary op')
        return self.ev(n.operand, st, got)

    def truth(self, st, v, k):
        """k(st, z3 Bool)"""
        if v.ty.kind == 'list':
            return k(st, st.list_len(v) > 0)
        if v.ty.kind == 'dict':
            return k(st, st.list_len(st.dict_keylist(v)) > 0)
        if v.ty.kind == 'tup':
            return k(st, z3.BoolVal(len(v.ty.args) > 0))
        return k(st, ops.truthy(v, st))

    def ev_BoolOp(self, n, st, k):
        is_and = isinstance(n.op, ast.And)

        def step(i, s):
            def got(s2, v):
                if i == len(n.values) - 1:
                    return k(s2, v)
                def on(s3, b):
                    if is_and:
                        self.branch(s3, b, lambda s4: step(i + 1, s4), lambda s4: k(s4, v), note='and@%d' % n.lineno)
                    else:
                        self.branch(s3, b, lambda s4: k(s4, v), lambda s4: step(i + 1, s4), note='or@%d' % n.lineno)
                self.truth(s2, v, on)
            self.ev(n.values[i], s, got)
        return step(0, st)

    def ev_IfExp(self, n, st, k):
        def got(s, c):
            self.truth(s, c, lambda s2, b: self.branch(s2, b, lambda s3: self.ev(n.body, s3, k),
                                                       lambda s3: self.ev(n.orelse, s3, k), note='ifexp@%d' % n.lineno))
        return self.ev(n.test, st, got)

    def ev_BinOp(self, n, st, k):
        def got(s, vs):
            self.binop(type(n.op).__name__, vs[0], vs[1], s, k, n)
        return self.ev_seq([n.left, n.right], st, got)

    def binop(self, op, a, b, st, k, n=None):
        line = getattr(n, 'lineno', '?')
        ka, kb = a.ty.kind, b.ty.kind
        if ka == 'str' and kb == 'str' and op == 'Add':
            return k(st, SV(STR, z3.Concat(a.t, b.t)))
        if ka == 'str' and op == 'Mod':
            return self.call_extern('str_mod', n, [a, b], {}, st, k)
        if ka == 'str' and kb in ('int', 'bool') and op == 'Mult':
            return self.call_extern('str_mul', n, [a, b], {}, st, k)
        if ka == 'list' and kb == 'list' and op == 'Add':
            return self.list_concat(a, b, st, k)
        if ka == 'list' and kb in ('int',) and op == 'Mult':
            return self.list_repeat(a, b, st, k)
        if ka == 'any' or kb == 'any':
            return self.call_extern('any_binop', n, [mk_str(op), a, b], {}, st, k)
        if not (ops.is_num(a) and ops.is_num(b)):
            raise Unsupported('binop %s on %s, %s (line %s)' % (op, a.ty, b.ty, line))
        if op in ('Add', 'Sub', 'Mult'):
            return k(st, ops.arith(op, a, b))
        if op == 'Div':
            z = ops.is_zero_divisor(b)
            return self.branch(st, z, lambda s: self.raise_(s, 'ZeroDivisionError', 'line %s' % line),
                               lambda s: k(s, ops.divide(a, b)), note='div0@%s' % line)
        if op == 'Pow' and kb == 'int' and z3.is_int_value(b.t) and b.t.as_long() == 2:
            return k(st, ops.arith('Mult', a, a))
        raise Unsupported('binop %s (line %s)' % (op, line))

    def list_concat(self, a, b, st, k):
        ety = a.ty.args[0]
        if sortkey(b.ty.args[0]) != sortkey(ety):
            raise Unsupported('list + list of different element types')
        na, nb = st.list_len(a), st.list_len(b)
        ea, eb = st.list_elems(a), st.list_elems(b)
        r = st.new_list_sym(ety, na + nb)
        er = st.list_elems(r)
        j = z3.Int(fresh_name('j'))
        st.assume(forall([j], z3.Implies(z3.And(0 <= j, j < na), z3.Select(er, j) == z3.Select(ea, j)),
                            patterns=[z3.Select(er, j)]),
                  forall([j], z3.Implies(z3.And(na <= j, j < na + nb), z3.Select(er, j) == z3.Select(eb, j - na)),
                            patterns=[z3.Select(er, j)]),
                  forall([j], z3.Implies(z3.And(0 <= j, j < nb), z3.Select(eb, j) == z3.Select(er, j + na)), patterns=[z3.Select(eb, j)]),
                  forall([j], z3.Implies(z3.And(0 <= j, j < na), z3.Select(ea, j) == z3.Select(er, j)), patterns=[z3.Select(ea, j)]))
        return k(st, r)

    def list_repeat(self, a, b, st, k):
        ety = a.ty.args[0]
        na = st.list_len(a)
        ea = st.list_elems(a)
        cnt = z3.If(b.t > 0, b.t, z3.IntVal(0))
        r = st.new_list_sym(ety, na * cnt)
        er = st.list_elems(r)
        j = z3.Int(fresh_name('j'))
        if z3.is_int_value(z3.simplify(na)):
            nal = z3.simplify(na).as_long()
            if nal == 1:
                st.assume(forall([j], z3.Implies(z3.And(0 <= j, j < cnt), z3.Select(er, j) == z3.Select(ea, 0)),
                                    patterns=[z3.Select(er, j)]))
                return k(st, r)
        raise Unsupported('list * n for non-singleton list')

    def ev_Compare(self, n, st, k):
        def step(i, s, left, acc):
            if i == len(n.ops):
                return k(s, mk_bool(z3.And(*acc) if len(acc) > 1 else acc[0]))
            def got(s2, right):
                self.compare(n.ops[i], left, right, s2, lambda s3, b: step(i + 1, s3, right, acc + [b]), n)
            self.ev(n.comparators[i], s, got)
        return self.ev(n.left, st, lambda s, l: step(0, s, l, []))

    def compare(self, op, a, b, st, k, n=None):
        """k(st, z3 Bool)"""
        o = type(op).__name__
        if o in ('Is', 'IsNot'):
            if a.ty.kind == 'none' or b.ty.kind == 'none':
                r = ops.py_eq(a, b)
            elif a.ty.kind == 'meta' or b.ty.kind == 'meta':
                r = self.type_eq(a, b)
            elif a.ty.is_reflike and b.ty.is_reflike:
                r = a.t == b.t
            else:
                raise Unsupported('`is` on %s, %s' % (a.ty, b.ty))
            return k(st, r if o == 'Is' else z3.Not(r))
        if o in ('In', 'NotIn'):
            def got(s, r):
                k(s, r if o == 'In' else z3.Not(r))
            return self.member(a, b, st, got)
        if a.ty.kind == 'meta' or b.ty.kind == 'meta':
            r = self.type_eq(a, b)
            return k(st, r if o == 'Eq' else z3.Not(r))
        if o in ('Eq', 'NotEq'):
            if a.ty.kind == 'list' and b.ty.kind == 'list':
                raise Unsupported('list == list')
            r = ops.py_eq(a, b)
            return k(st, r if o == 'Eq' else z3.Not(r))
        if a.ty.kind == 'str' and b.ty.kind == 'str':
            r = {'Lt': a.t < b.t, 'LtE': a.t <= b.t, 'Gt': b.t < a.t, 'GtE': b.t <= a.t}[o]
            return k(st, r)
        if a.ty.kind == 'any' or b.ty.kind == 'any':
            return self.call_extern('any_compare', n, [mk_str(o), a, b], {}, st, lambda s, v: k(s, v.t))
        return k(st, ops.num_cmp(o, a, b))

    def type_eq(self, a, b):
        if a.ty.kind == 'meta' and b.ty.kind == 'meta':
            return a.t == b.t
        raise Unsupported('type comparison')

    def member(self, x, c, st, k):
        """k(st, z3 Bool) for `x in c`"""
        if c.ty.kind == 'str':
            if x.ty.kind != 'str':
                raise Unsupported('non-str in str')
            return k(st, z3.Contains(c.t, x.t))
        if c.ty.kind == 'list':
            j = z3.Int(fresh_name('m'))
            n = st.list_len(c)
            e = st.list_get(c, j)
            return k(st, z3.Exists([j], z3.And(0 <= j, j < n, ops.py_eq(e, x))))
        if c.ty.kind == 'tup':
            items = c.items if c.items is not None else unpack(c.ty, c.t).items
            return k(st, z3.Or(*[ops.py_eq(x, y) for y in items]) if items else z3.BoolVal(False))
        if c.ty.kind == 'dict':
            return k(st, st.dict_has(c, x))
        if c.ty.kind == 'ref':
            kv = self.ctab.dict_kv(c.ty.args[0])
            if kv:
                return k(st, st.dict_has(c, x))
            # user-defined __contains__
            fi = self.repo.find_method(c.ty.args[0], '__contains__')
            if fi is not None:
                return self.call_repo(fi, [c, x], {}, st, lambda s, v: self.truth(s, v, k), None)
        raise Unsupported('membership in ' + str(c.ty))

    def ev_Subscript(self, n, st, k):
        def got(s, o):
            sl = n.slice
            if isinstance(sl, ast.Slice):
                bounds = [x for x in (sl.lower, sl.upper) if x is not None]
                if sl.step is not None:
                    raise Unsupported('slice step')
                def gotb(s2, bs):
                    it = iter(bs)
                    lo = next(it) if sl.lower is not None else None
                    hi = next(it) if sl.upper is not None else None
                    self.slice(o, lo, hi, s2, k, n)
                return self.ev_seq(bounds, s, gotb)
            return self.ev(sl, s, lambda s2, i: self.index(o, i, s2, k, n))
        return self.ev(n.value, st, got)

    def eff_index(self, st, idx, ln):
        """Python index normalisation; the sign of the index is decided up front where the path
        condition determines it, so that the terms stay free of if-then-else"""
        sidx = z3.simplify(idx)
        if z3.is_int_value(sidx):
            return sidx + ln if sidx.as_long() < 0 else sidx
        if not self.feasible(st, idx < 0):
            return idx
        if not self.feasible(st, idx >= 0):
            return idx + ln
        return z3.If(idx < 0, idx + ln, idx)

    def index(self, o, i, st, k, n=None):
        line = getattr(n, 'lineno', '?')
        if o.ty.kind == 'list':
            idx = ops.to_int(i).t
            ln = st.list_len(o)
            eff = self.eff_index(st, idx, ln)
            ok = z3.And(eff >= 0, eff < ln)
            def good(s):
                v = s.list_get(o, eff)
                s.assume_wf(v)
                self.resolve_opt(s, v, k)
            return self.branch(st, ok, good, lambda s: self.raise_(s, 'IndexError', 'line %s' % line), note='idx@%s' % line)
        if o.ty.kind == 'tup':
            items = o.items if o.items is not None else unpack(o.ty, o.t).items
            if z3.is_int_value(i.t):
                return k(st, items[i.t.as_long()])
            raise Unsupported('symbolic tuple index')
        if o.ty.kind == 'str':
            idx = ops.to_int(i).t
            ln = z3.Length(o.t)
            eff = z3.If(idx < 0, idx + ln, idx)
            ok = z3.And(eff >= 0, eff < ln)
            return self.branch(st, ok, lambda s: k(s, SV(STR, z3.SubString(o.t, eff, 1))),
                               lambda s: self.raise_(s, 'IndexError', 'line %s' % line), note='sidx@%s' % line)
        if o.ty.kind == 'dict' or (o.ty.kind == 'ref' and self.ctab.dict_kv(o.ty.args[0])):
            has = st.dict_has(o, i)
            def good(s):
                v = s.dict_get(o, i)
                s.assume_wf(v)
                self.resolve_opt(s, v, k)
            return self.branch(st, has, good, lambda s: self.raise_(s, 'KeyError', 'line %s' % line), note='key@%s' % line)
        if o.ty.kind == 'ref':
            fi = self.repo.find_method(o.ty.args[0], '__getitem__')
            if fi is not None:
                return self.call_repo(fi, [o, i], {}, st, k, n)
        raise Unsupported('subscript of %s (line %s)' % (o.ty, line))

    def slice(self, o, lo, hi, st, k, n=None):
        if o.ty.kind == 'str':
            return k(st, SV(STR, ops.slice_str(o.t, lo.t if lo is not None else None, hi.t if hi is not None else None)))
        if o.ty.kind == 'list':
            ln = st.list_len(o)
            def norm(i, default):
                if i is None:
                    return default
                i = i.t
                i = z3.If(i < 0, i + ln, i)
                return z3.If(i < 0, z3.IntVal(0), z3.If(i > ln, ln, i))
            a = norm(lo, z3.IntVal(0))
            b = norm(hi, ln)
            m = z3.If(b > a, b - a, z3.IntVal(0))
            ety = o.ty.args[0]
            eo = st.list_elems(o)
            r = st.new_list_sym(ety, m)
            er = st.list_elems(r)
            j = z3.Int(fresh_name('j'))
            st.assume(forall([j], z3.Implies(z3.And(0 <= j, j < m), z3.Select(er, j) == z3.Select(eo, j + a)),
                                patterns=[z3.Select(er, j)]))
            return k(st, r)
        raise Unsupported('slice of ' + str(o.ty))

    def ev_JoinedStr(self, n, st, k):
        raise Unsupported('f-string')

    def ev_ListComp(self, n, st, k):
        return self.call_extern('listcomp', n, [], {}, st, k)

    def ev_GeneratorExp(self, n, st, k):
        return self.call_extern('listcomp', n, [], {}, st, k)

    def ev_Lambda(self, n, st, k):
        raise Unsupported('lambda')

    def ev_Starred(self, n, st, k):
        raise Unsupported('starred')

    # ---- calls -------------------------------------------------------------------------------
    def ev_Call(self, n, st, k):
        f = n.func
        if any(kw.arg is None for kw in n.keywords):
            raise Unsupported('**kwargs call')
        kwnames = [kw.arg for kw in n.keywords]
        kwnodes = [kw.value for kw in n.keywords]
        if any(isinstance(a, ast.Starred) for a in n.args):
            return self.call_extern('star_call', n, [], {}, st, k)

        def with_args(s, cont):
            def got(s2, vs):
                pos = vs[:len(n.args)]
                kws = dict(zip(kwnames, vs[len(n.args):]))
                cont(s2, pos, kws)
            self.ev_seq(list(n.args) + kwnodes, s, got)

        if isinstance(f, ast.Name) and f.id == '_cut' and getattr(n, '_is_ghost', False):
            # ghost cut: the given facts are proved here (obligations) and, from here on, they replace every other
            # QUANTIFIED hypothesis of the path except the preconditions (dropping hypotheses is always sound)
            from .smt import _has_quant
            label = n.args[0].value
            s2 = st.fork()
            s2.env = dict(st.env)
            for nm, v in self.entry_state.env.items():
                s2.env.setdefault(nm, v)
            ctx = SpecCtx(s2, old=self.entry_state, entry=self.entry_state)
            fmls = []
            for a in n.args[1:]:
                fmls.append((a.value, self.speceval.formula(a.value, ctx)))
            st.assume(*ctx.side)
            for i, (txt, fml) in enumerate(fmls):
                self.oblige('cut/%s/%d' % (label, i), st, fml, getattr(n, 'lineno', None))
            keep_ids = getattr(self, 'requires_ids', set())
            side_ids = set(x.get_id() for x in ctx.side)
            st.pc = [h for h in st.pc if (not _has_quant(h)) or h.get_id() in keep_ids or h.get_id() in side_ids] + [f_ for _, f_ in fmls]
            return k(st, NONE_V)
        if isinstance(f, ast.Name) and f.id == '_snapshot' and getattr(n, '_is_ghost', False):
            # ghost heap snapshot H = current state, readable in later spec formulas as at(H, e)
            st.ghost = dict(st.ghost)
            st.ghost[n.args[0].value] = SV(Ty('heap'), None, None, st.fork())
            return k(st, NONE_V)
        if isinstance(f, ast.Name) and f.id == '_assume' and getattr(n, '_is_ghost', False):
            # ghost assumption (recorded in the evidence as an assumption of this contract)
            s2 = st.fork()
            s2.env = dict(st.env)
            for nm, v in self.entry_state.env.items():
                s2.env.setdefault(nm, v)
            ctx = SpecCtx(s2, old=self.entry_state, entry=self.entry_state)
            fml = self.speceval.formula(n.args[0].value, ctx)
            st.assume(*ctx.side)
            st.assume(fml)
            self.assumptions.append('%s: assumed %s' % (self.cur_spec.name, n.args[0].value))
            return k(st, NONE_V)
        if isinstance(f, ast.Name) and f.id == '_assert' and getattr(n, '_is_ghost', False):
            # ghost checkpoint: assert (obligation) then assume a spec formula at this program point
            label = n.args[1].value if len(n.args) > 1 else 'checkpoint'
            s2 = st.fork()
            s2.env = dict(st.env)
            for nm, v in self.entry_state.env.items():
                s2.env.setdefault(nm, v)
            ctx = SpecCtx(s2, old=self.entry_state, entry=self.entry_state)
            fml = self.speceval.formula(n.args[0].value, ctx)
            st.assume(*ctx.side)
            o_ = self.oblige('checkpoint/%s' % label, st, fml, getattr(n, 'lineno', None))
            o_.ctx = ctx          # for the developer probe tool
            o_.engine = self
            st.assume(fml)
            return k(st, NONE_V)
        if isinstance(f, ast.Name):
            name = f.id
            if name in st.env:
                raise Unsupported('call of a local value ' + name)
            if name in self.externs:
                lazy = getattr(self.externs[name], 'lazy', False)
                if lazy:
                    return self.externs[name](self, n, None, None, st, k)
                return with_args(st, lambda s, pos, kws: self.call_extern(name, n, pos, kws, s, k))
            if self.is_exc_class(name):
                return with_args(st, lambda s, pos, kws: k(s, SV(EXC, None, None, name)))
            if name in self.repo.classes:
                return with_args(st, lambda s, pos, kws: self.construct(name, pos, kws, s, k, n))
            fis = self.repo.by_simple.get(name)
            if fis:
                return with_args(st, lambda s, pos, kws: self.call_repo(fis[0], pos, kws, s, k, n))
            raise Unsupported('call of unknown function %s (line %s)' % (name, n.lineno))
        if isinstance(f, ast.Attribute):
            chain = self.attr_chain(f)
            # static / module-qualified calls
            if chain is not None and chain[0] not in st.env:
                last = chain[-1]
                owner = chain[-2] if len(chain) >= 2 else None
                dotted = '.'.join(chain)
                if dotted in self.externs:
                    lazy = getattr(self.externs[dotted], 'lazy', False)
                    if lazy:
                        return self.externs[dotted](self, n, None, None, st, k)
                    return with_args(st, lambda s, pos, kws: self.call_extern(dotted, n, pos, kws, s, k))
                if owner in self.repo.classes:
                    fi = self.repo.find_method(owner, last)
                    if fi is not None:
                        return with_args(st, lambda s, pos, kws: self.call_repo(fi, pos, kws, s, k, n, static_owner=owner))
                if last in self.repo.classes:
                    return with_args(st, lambda s, pos, kws: self.construct(last, pos, kws, s, k, n))
                if last in self.repo.by_simple and owner not in self.repo.classes:
                    fi = self.repo.by_simple[last][0]
                    return with_args(st, lambda s, pos, kws: self.call_repo(fi, pos, kws, s, k, n))
                raise Unsupported('call %s (line %s)' % (dotted, n.lineno))
            # method call on a value
            def goto(s, o):
                def cont(s2, pos, kws):
                    self.call_method(o, f.attr, pos, kws, s2, k, n)
                with_args(s, cont)
            return self.ev(f.value, st, goto)
        raise Unsupported('call form (line %s)' % n.lineno)

    def attr_chain(self, f):
        parts = []
        x = f
        while isinstance(x, ast.Attribute):
            parts.append(x.attr)
            x = x.value
        if isinstance(x, ast.Name):
            parts.append(x.id)
            return list(reversed(parts))
        return None

    def call_extern(self, name, n, pos, kws, st, k):
        if name not in self.externs:
            raise Unsupported('no model for ' + name)
        self.externs_used.add(name)
        return self.externs[name](self, n, pos, kws, st, k)

    def call_method(self, o, mname, pos, kws, st, k, n):
        kind = o.ty.kind
        key = (kind, mname)
        if kind == 'ref':
            cname = o.ty.args[0]
            # dict-subclass instances answer dict methods
            fi = self.repo.find_method(cname, mname)
            if fi is None and self.ctab.dict_kv(cname) and ('dict', mname) in self.method_externs:
                self.externs_used.add('dict.' + mname)
                return self.method_externs[('dict', mname)](self, n, o, pos, kws, st, k)
            if fi is None:
                # not a method of the static class: Python raises AttributeError unless the object belongs to a subclass that
                # has it.  When all such subclasses share one definition, dispatch there and record the downcast as an assumption.
                cands = {}
                for c in self.repo.subclasses(cname):
                    f2 = self.repo.find_method(c, mname)
                    if f2 is not None:
                        cands[f2.qualname] = (f2, c)
                if len(cands) != 1:
                    raise Unsupported('method %s.%s not found (line %s)' % (cname, mname, n.lineno))
                fi, sub = list(cands.values())[0]
                self.assumptions.append('%s: receiver of .%s() at `%s` is assumed to be an instance of %s (the only class family defining it; otherwise Python raises AttributeError)'
                                        % (self.cur_spec.name if self.cur_spec else '?', mname, ast.unparse(n)[:60], fi.qualname.rsplit('.', 1)[0]))
                o = SV(Ty('ref', fi.qualname.rsplit('.', 1)[0].rsplit('.', 1)[-1]), o.t, meta=o.meta)
                cname = o.ty.args[0]
            over = self.repo.overriders(cname, mname)
            spec = self.spec_for_call(fi)
            if over and spec is None and not (o.meta and o.meta.get('exact')):
                raise Unsupported('dynamic dispatch of %s.%s without a contract (overridden in %s)' % (cname, mname, over))
            if fi.is_static:
                return self.call_repo(fi, pos, kws, st, k, n)
            return self.call_repo(fi, [o] + pos, kws, st, k, n)
        if key in self.method_externs:
            self.externs_used.add('%s.%s' % key)
            return self.method_externs[key](self, n, o, pos, kws, st, k)
        raise Unsupported('method %s on %s (line %s)' % (mname, o.ty, getattr(n, 'lineno', '?')))

    def spec_for_call(self, fi, actual=None):
        if self.cur_spec is not None and fi.qualname in self.cur_spec.inline:
            return None
        specs = REG['fns'].get(fi.qualname)
        if not specs:
            return None
        s = specs[0]
        if actual is not None and len(specs) > 1:
            # several contracts for one function (argument-type variants): first one whose declared
            # parameter kinds fit the actual arguments
            for cand in specs:
                ok = True
                for (nm, ty) in cand.args:
                    v = actual.get(nm)
                    if v is None:
                        continue
                    want = ty.args[0].kind if ty.kind == 'opt' else ty.kind
                    have = v.ty.kind
                    if have == 'none' and ty.kind == 'opt':
                        continue
                    if want == 'any' or have == want or (want == 'float' and have in ('int', 'bool')):
                        continue
                    ok = False
                    break
                if ok:
                    s = cand
                    break
        if not s.contract_at_calls:
            return None
        if self.cur_fi is not None and fi.qualname == self.cur_fi.qualname and self.depth0:
            return None
        return s

    def construct(self, cname, pos, kws, st, k, n):
        if self.ctab.dict_kv(cname):
            kv = self.ctab.dict_kv(cname)
            o = st.new_dict(kv[0], kv[1], cls=cname)
        else:
            o = SV(Ref(cname), st.new_ref())
        o.meta = {'exact': True}
        st.H('tyof', arr(z3.IntSort(), z3.IntSort()))
        st.heap['tyof'] = z3.Store(st.heap['tyof'], o.t, z3.IntVal(cls_tag(Ref(cname))))
        fi = self.repo.find_method(cname, '__init__')
        if fi is None:
            return k(st, o)
        return self.call_repo(fi, [o] + pos, kws, st, lambda s, v: k(s, o), n)

    def bind_params(self, fi, pos, kws, st, cont):
        """cont(st, OrderedDict name->SV)"""
        params = fi.params()
        names = [p[0] for p in params]
        if len(pos) > len(names):
            raise Unsupported('too many positional args for ' + fi.qualname)
        bound = {}
        for nm, v in zip(names, pos):
            bound[nm] = v
        for kname, v in kws.items():
            if kname not in names:
                raise Unsupported('unknown keyword %s for %s' % (kname, fi.qualname))
            bound[kname] = v
        missing = [(nm, d) for nm, d in params if nm not in bound]
        def step(i, s):
            if i == len(missing):
                return cont(s, dict((nm, bound[nm]) for nm in names))
            nm, d = missing[i]
            if d is None:
                raise Unsupported('missing argument %s for %s' % (nm, fi.qualname))
            def got(s2, v):
                bound[nm] = v
                step(i + 1, s2)
            self.ev(d, s, got)
        step(0, st)

    def call_repo(self, fi, pos, kws, st, k, n, static_owner=None):
        if fi.qualname in (self.cur_spec.opaque_calls if self.cur_spec else ()):
            raise Unsupported('opaque call ' + fi.qualname)
        if self.spec_for_call(fi) is not None:
            def with_bound(s, b):
                spec = self.spec_for_call(fi, b)
                self.call_contract(spec, fi, b, s, k, n)
            return self.bind_params(fi, pos, kws, st, with_bound)
        return self.bind_params(fi, pos, kws, st, lambda s, b: self.call_inline(fi, b, s, k, n))

    def call_inline(self, fi, bound, st, k, n):
        if st.ctl.depth >= 8:
            raise Unsupported('inlining depth exceeded at ' + fi.qualname)
        self.inlined.add(fi.qualname)
        caller_env = st.env
        caller_ctl = st.ctl
        was_depth0 = self.depth0

        def restore(s):
            s.env = dict(caller_env)
            s.ctl = caller_ctl

        def ret(s, v):
            restore(s)
            k(s, v)

        def handler(s, exc):
            restore(s)
            caller_ctl.handler(s, exc)

        st.env = dict(bound)
        # the callee's own sidecar spec (loop invariants, ghost code) is used inside the inlined body:
        # `old` in those invariants is the callee's entry state
        cspec = self.variant_for(fi, bound)
        inl = None
        if cspec is not None:
            self.inline_count = getattr(self, 'inline_count', 0) + 1
            centry = st.fork()
            centry.env = dict(bound)
            inl = (cspec, centry, self.inline_count, fi)
        st.ctl = Ctl(ret=ret, brk=None, cont=None, handler=handler, depth=caller_ctl.depth + 1, fname=fi.qualname, inl=inl)
        self.depth0 = False
        try:
            self.ex_block(fi.node.body, st, lambda s: ret(s, NONE_V))
        finally:
            self.depth0 = was_depth0

    def variant_for(self, fi, bound):
        specs = REG['fns'].get(fi.qualname)
        if not specs:
            return None
        for cand in specs:
            ok = True
            for (nm, ty) in cand.args:
                v = bound.get(nm)
                if v is None:
                    continue
                want = ty.args[0].kind if ty.kind == 'opt' else ty.kind
                have = v.ty.kind
                if (have == 'none' and ty.kind == 'opt') or want == 'any' or have == want or (want == 'float' and have in ('int', 'bool')):
                    continue
                ok = False
                break
            if ok:
                return cand
        return specs[0]

    def call_contract(self, spec, fi, bound, st, k, n):
        self.contracts_used.add(spec.qualname)
        line = getattr(n, 'lineno', '?')
        # coerce arguments to the declared types (e.g. None for an optional ref)
        args = {}
        for (nm, ty) in spec.args:
            v = bound.get(nm)
            if v is None:
                raise Unsupported('contract %s: missing argument %s' % (spec.qualname, nm))
            args[nm] = self.coerce(v, ty)
        pre = st.fork()
        pre.env = dict(args)
        ctx0 = SpecCtx(pre, old=pre)
        n_pre = len(pre.pc)
        for (rn, rexpr) in spec.requires:
            f = self.speceval.formula(rexpr, ctx0)
            st.assume(*ctx0.side)
            st.assume(*pre.pc[n_pre:])          # well-formedness facts of what the precondition reads
            n_pre = len(pre.pc)
            o_ = self.oblige('call/%s/requires/%s' % (spec.name.split('.')[-1], rn), st, f, line)
            snap_ = st.fork()
            snap_.env = dict(st.env)
            o_.ctx = SpecCtx(snap_, old=self.entry_state, entry=self.entry_state)     # for the developer probe tool (caller's names)
            o_.engine = self
        caller_env = st.env

        def post_state(s):
            p = s.fork()
            if spec.modifies:
                self.havoc(p, spec.modifies)
            else:
                na = z3.Int(fresh_name('alloc'))
                p.assume(na >= p.alloc)
                p.alloc = na
            return p

        # exceptional outcomes
        iffs = []
        for rs in spec.raises:
            when = self.speceval.formula(rs.when, ctx0)
            if rs.iff:
                iffs.append(when)
            if not self.feasible(st, when):
                continue
            p = post_state(st)
            p.assume(when)
            pe = p.fork()
            pe.env = dict(args)
            cx = SpecCtx(pe, old=pre)
            for (en, eexpr, _o) in rs.ensures:
                p.assume(self.speceval.formula(eexpr, cx))
                p.assume(*cx.side)
            p.note('%s raises %s@%s' % (spec.name.split('.')[-1], rs.exc, line))
            self.raise_(p, rs.exc, 'contract %s line %s' % (spec.qualname, line))
        # normal outcome
        p = post_state(st)
        for w in iffs:
            p.assume(z3.Not(w))
        if not self.feasible(p):
            return
        normal_possible = True
        res = None
        if spec.returns is not None and spec.returns.kind != 'none':
            res = unpack(spec.returns, z3.Const(fresh_name('ret_' + fi.name), sort_of(spec.returns)))
            p.assume_wf(res)
        else:
            res = NONE_V
        pe = p.fork()
        pe.env = dict(args)
        cx = SpecCtx(pe, old=pre, result=res)
        for (dn, dexpr) in spec.old_defs:
            cx.extra[dn] = self.speceval.value(dexpr, ctx0)
        for (dn, dexpr) in spec.defs:
            cx.extra[dn] = self.speceval.value(dexpr, cx)
        for (en, eexpr, _opts) in spec.ensures:
            if (_opts or {}).get('needs'):
                continue       # clause over the callee's own locals / ghosts: not visible to callers
            p.assume(self.speceval.formula(eexpr, cx))
            p.assume(*cx.side)
        p.env = caller_env
        # vacuity guard: the callee's postconditions must be satisfiable together with the caller's path (a contract whose
        # `ensures` describe a change that its `modifies` does not allow would otherwise silently end the path)
        if normal_possible and not self.feasible(p):
            raise Unsupported('the contract of %s is inconsistent with the state at its call site (line %s): ensures vs. modifies?' % (spec.name, line))
        if self.cur_spec is not None and self.cur_spec.call_lemmas:
            lp = p.fork()
            lp.env = dict((nm, v) for nm, v in self.entry_state.env.items())
            pre2 = pre.fork()
            pre2.env = dict(lp.env)
            cl = SpecCtx(lp, old=pre2, entry=pre2)
            for lexpr in self.cur_spec.call_lemmas:
                try:
                    self.speceval.value(lexpr, cl)
                except Unsupported:
                    pass
            p.assume(*cl.side)
        if res.ty.kind == 'opt':
            return self.resolve_opt(p, res, k)
        k(p, res)

    def coerce(self, v, ty):
        if ty.kind == 'opt':
            return SV(ty, pack(v, ty))
        if ty.kind == 'float' and v.ty.kind in ('int', 'bool'):
            return ops.to_float(v)
        if ty.kind == 'any' and v.ty.kind != 'any':
            return SV(ANY, to_any(v))
        if ty.kind == 'ref' and v.ty.kind == 'ref':
            return SV(ty if self.ctab.is_subclass(ty.args[0], v.ty.args[0]) and ty != v.ty else v.ty, v.t, None, v.meta)
        return v

    # ---- statements --------------------------------------------------------------------------
    def ex_block(self, stmts, st, k):
        if not stmts:
            return k(st)
        first = stmts[0]
        ghost = None
        gsrc = list(self.cur_spec.ghost_after) if self.cur_spec is not None else []
        if st.ctl.inl is not None:
            gsrc = gsrc + list(st.ctl.inl[0].ghost_after)
        if gsrc and not getattr(first, '_is_ghost', False):
            try:
                txt = ast.unparse(first).split('\n')[0]
            except Exception:
                txt = None
            for (m, body) in gsrc:
                if m == txt or (m.startswith('re:') and txt is not None and re.fullmatch(m[3:], txt)):
                    ghost = body
                    for g in body:
                        for x in ast.walk(g):
                            x._is_ghost = True
                    break
        if ghost is not None:
            return self.ex(first, st, lambda s: self.ex_block(ghost, s, lambda s2: self.ex_block(stmts[1:], s2, k)))
        return self.ex(first, st, lambda s: self.ex_block(stmts[1:], s, k))

    def ex(self, n, st, k):
        m = getattr(self, 'ex_' + type(n).__name__, None)
        if m is None:
            raise Unsupported('statement %s (line %s)' % (type(n).__name__, n.lineno))
        return m(n, st, k)

    def ex_Expr(self, n, st, k):
        if isinstance(n.value, ast.Constant):
            return k(st)     # docstring
        return self.ev(n.value, st, lambda s, v: k(s))

    def ex_Pass(self, n, st, k):
        return k(st)

    def ex_Import(self, n, st, k):
        return k(st)

    def ex_ImportFrom(self, n, st, k):
        return k(st)

    def ex_Assign(self, n, st, k):
        if len(n.targets) == 1 and isinstance(n.targets[0], ast.Name):
            n.value._target_name = n.targets[0].id
        if (len(n.targets) == 1 and isinstance(n.targets[0], ast.Attribute) and isinstance(n.value, ast.Dict) and not n.value.keys
                and isinstance(n.targets[0].value, ast.Name) and n.targets[0].value.id in st.env and st.env[n.targets[0].value.id].ty.kind == 'ref'):
            # `obj.field = {}`: the dict type is the declared type of the field
            try:
                _nm, _ty = st.field_family(st.env[n.targets[0].value.id].ty.args[0], n.targets[0].attr)
                if _ty.kind == 'dict':
                    n.value._dict_type = _ty
            except Exception:
                pass
        def got(s, v):
            def step(i, s2):
                if i == len(n.targets):
                    return k(s2)
                self.assign(n.targets[i], v, s2, lambda s3: step(i + 1, s3))
            step(0, s)
        return self.ev(n.value, st, got)

    def assign(self, tgt, v, st, k):
        if isinstance(tgt, ast.Name):
            # declared type of a local (sidecar hint ('local', name)): e.g. an Optional that starts as None
            lt = (self.cur_spec.hints.get(('local', tgt.id)) if (self.cur_spec and st.ctl.inl is None) else None)
            if st.ctl.inl is not None:
                lt = st.ctl.inl[0].hints.get(('local', tgt.id))
            if lt is not None and lt.kind == 'opt' and v.ty != lt:
                v = SV(lt, pack(v, lt))
            st.env[tgt.id] = v
            return k(st)
        if isinstance(tgt, (ast.Tuple, ast.List)):
            if v.ty.kind != 'tup':
                raise Unsupported('unpacking of ' + str(v.ty))
            items = v.items if v.items is not None else unpack(v.ty, v.t).items
            if len(items) != len(tgt.elts):
                raise Unsupported('unpacking arity')
            def step(i, s):
                if i == len(items):
                    return k(s)
                self.assign(tgt.elts[i], items[i], s, lambda s2: step(i + 1, s2))
            return step(0, st)
        if isinstance(tgt, ast.Attribute):
            if isinstance(tgt.value, ast.Name) and tgt.value.id not in st.env and tgt.value.id in self.repo.classes:
                self.set_global(st, tgt.value.id, tgt.attr, v)
                return k(st)
            def got(s, o):
                if o.ty.kind != 'ref':
                    raise Unsupported('attribute store on ' + str(o.ty))
                v2 = v
                if v.ty.kind == 'list' and v.meta and v.meta.get('empty_literal'):
                    decl, fty = self.ctab.field_decl(o.ty.args[0], tgt.attr)
                    if fty is not None and fty.kind == 'list' and fty != v.ty:
                        v2 = SV(fty, v.t)                # `[]` stored into a field of declared list type
                        s.list_set_elems(v2, s.list_elems(v2), z3.IntVal(0))
                        s.set_tag(v2)
                s.set_field(o, tgt.attr, v2)
                k(s)
            return self.ev(tgt.value, st, got)
        if isinstance(tgt, ast.Subscript):
            def got(s, o):
                if isinstance(tgt.slice, ast.Slice):
                    raise Unsupported('slice assignment')
                self.ev(tgt.slice, s, lambda s2, i: self.store_index(o, i, v, s2, k, tgt))
            return self.ev(tgt.value, st, got)
        raise Unsupported('assignment target ' + type(tgt).__name__)

    def store_index(self, o, i, v, st, k, n):
        line = getattr(n, 'lineno', '?')
        if o.ty.kind == 'list':
            idx = ops.to_int(i).t
            ln = st.list_len(o)
            eff = self.eff_index(st, idx, ln)
            ok = z3.And(eff >= 0, eff < ln)
            def good(s):
                s.list_store(o, eff, v)
                k(s)
            return self.branch(st, ok, good, lambda s: self.raise_(s, 'IndexError', 'line %s' % line), note='sidx@%s' % line)
        if o.ty.kind == 'dict' or (o.ty.kind == 'ref' and self.ctab.dict_kv(o.ty.args[0])):
            st.dict_set(o, i, v)
            return k(st)
        raise Unsupported('index store on ' + str(o.ty))

    def ex_AugAssign(self, n, st, k):
        op = type(n.op).__name__
        tgt = n.target
        if isinstance(tgt, ast.Name):
            def got(s, v):
                self.binop(op, s.env[tgt.id], v, s, lambda s2, r: self.assign(tgt, r, s2, k), n)
            if tgt.id not in st.env:
                raise Unsupported('augmented assignment to unbound ' + tgt.id)
            return self.ev(n.value, st, got)
        if isinstance(tgt, ast.Attribute):
            if isinstance(tgt.value, ast.Name) and tgt.value.id not in st.env and tgt.value.id in self.repo.classes:
                cname = tgt.value.id
                def gotg(s, v):
                    cur = self.global_family(s, cname, tgt.attr)
                    def done(s2, r):
                        self.set_global(s2, cname, tgt.attr, r)
                        k(s2)
                    self.binop(op, cur, v, s, done, n)
                return self.ev(n.value, st, gotg)
            def goto(s, o):
                def gotv(s2, v):
                    cur = s2.get_field(o, tgt.attr)
                    def done(s3, r):
                        s3.set_field(o, tgt.attr, r)
                        k(s3)
                    self.binop(op, cur, v, s2, done, n)
                self.ev(n.value, s, gotv)
            return self.ev(tgt.value, st, goto)
        if isinstance(tgt, ast.Subscript):
            def goto(s, o):
                def goti(s2, i):
                    def gotcur(s3, cur):
                        def gotv(s4, v):
                            self.binop(op, cur, v, s4, lambda s5, r: self.store_index(o, i, r, s5, k, tgt), n)
                        self.ev(n.value, s3, gotv)
                    self.index(o, i, s2, gotcur, tgt)
                self.ev(tgt.slice, s, goti)
            return self.ev(tgt.value, st, goto)
        raise Unsupported('augmented assignment target')

    def ex_Return(self, n, st, k):
        if n.value is None:
            return st.ctl.ret(st, NONE_V)
        return self.ev(n.value, st, lambda s, v: s.ctl.ret(s, v))

    def ex_If(self, n, st, k):
        def got(s, c):
            self.truth(s, c, lambda s2, b: self.branch(s2, b, lambda s3: self.ex_block(n.body, s3, k),
                                                       lambda s3: self.ex_block(n.orelse, s3, k), note='if@%d' % n.lineno))
        return self.ev(n.test, st, got)

    def ex_Assert(self, n, st, k):
        def got(s, c):
            def on(s2, b):
                self.oblige('assert/%s' % ast.unparse(n.test)[:60].replace('/', '|'), s2, b, n.lineno)
                s2.assume(b)
                k(s2)
            self.truth(s, c, on)
        return self.ev(n.test, st, got)

    def ex_Raise(self, n, st, k):
        if n.exc is None:
            if st.cur_exc is None:
                raise Unsupported('bare raise outside handler')
            return self.raise_(st, st.cur_exc)
        def got(s, v):
            if v.ty.kind == 'exc' and v.meta:
                return self.raise_(s, v.meta if isinstance(v.meta, str) else v.meta, 'line %d' % n.lineno)
            raise Unsupported('raise of ' + str(v.ty))
        if isinstance(n.exc, ast.Name) and self.is_exc_class(n.exc.id):
            return self.raise_(st, n.exc.id, 'line %d' % n.lineno)
        return self.ev(n.exc, st, got)

    def ex_Break(self, n, st, k):
        return st.ctl.brk(st)

    def ex_Continue(self, n, st, k):
        return st.ctl.cont(st)

    def ex_Delete(self, n, st, k):
        raise Unsupported('del')

    def ex_With(self, n, st, k):
        raise Unsupported('with')

    def ex_Global(self, n, st, k):
        raise Unsupported('global')

    def ex_Try(self, n, st, k):
        outer = st.ctl
        fin = n.finalbody

        def after_finally(cont):
            """run the finally block, then continue with cont(st, *a) under the outer control"""
            if not fin:
                return cont
            def w(s, *a):
                s.ctl = outer
                self.ex_block(fin, s, lambda s2: cont(s2, *a))
            return w

        k_done = after_finally(lambda s: (setattr(s, 'ctl', outer), k(s))[1])
        ret2 = after_finally(outer.ret) if outer.ret else None
        brk2 = after_finally(outer.brk) if outer.brk else None
        cont2 = after_finally(outer.cont) if outer.cont else None
        outer_handler2 = after_finally(outer.handler)

        def handler(s, exc):
            # find the first matching except clause
            for h in n.handlers:
                if h.type is None:
                    names = None
                elif isinstance(h.type, ast.Tuple):
                    names = [self.exc_name(x) for x in h.type.elts]
                else:
                    names = [self.exc_name(h.type)]
                if names is None or any(self.exc_is_sub(exc.cls, nm) for nm in names):
                    s.ctl = outer.but(ret=ret2, brk=brk2, cont=cont2, handler=outer_handler2)
                    saved_exc = s.cur_exc
                    s.cur_exc = exc
                    if h.name:
                        s.env[h.name] = SV(EXC, None, None, exc.cls)
                    def done(s2):
                        s2.cur_exc = saved_exc
                        k_done(s2)
                    return self.ex_block(h.body, s, done)
            outer_handler2(s, exc)

        st.ctl = outer.but(ret=ret2, brk=brk2, cont=cont2, handler=handler)

        def body_done(s):
            if n.orelse:
                s.ctl = outer.but(ret=ret2, brk=brk2, cont=cont2, handler=outer_handler2)
                return self.ex_block(n.orelse, s, k_done)
            k_done(s)
        return self.ex_block(n.body, st, body_done)

    def exc_name(self, node):
        if isinstance(node, ast.Name):
            return node.id
        if isinstance(node, ast.Attribute):
            return node.attr
        raise Unsupported('except clause type')

    # ---- loops -------------------------------------------------------------------------------
    def loop_spec(self, n, st=None):
        inl = st.ctl.inl if st is not None else None
        if inl is not None and self.loop_ordinals.get(id(n)) is None:
            cspec, centry, inst, cfi = inl
            hdr = loop_header(n)
            from .verify import loop_ordinals as _lo
            ords = _lo(cfi.node)
            o = ords.get(id(n))
            for key, ls in cspec.loops.items():
                if (ls.header is not None and ls.header == hdr) or (ls.header is None and key == o):
                    return 'inl%d' % inst, ls
            return 'inl%d' % inst, None
        ordinal = self.loop_ordinals.get(id(n))
        if ordinal is None:
            return None, None
        # contracts are attached by loop header text when given (robust against inserted loops),
        # by source-order ordinal otherwise
        hdr = loop_header(n)
        for key, ls in self.cur_spec.loops.items():
            if ls.header is not None and ls.header == hdr:
                return key, ls
        ls = self.cur_spec.loops.get(ordinal)
        if ls is not None and ls.header is not None and ls.header != hdr:
            heads = getattr(self, 'loop_headers', {})
            if ls.header in heads.values():
                ls = None      # that contract belongs to another loop of this function
        return ordinal, ls

    def assigned_names(self, stmts):
        out = set()
        for s in stmts:
            for x in ast.walk(s):
                if isinstance(x, ast.Name) and isinstance(x.ctx, ast.Store):
                    out.add(x.id)
                elif isinstance(x, ast.ExceptHandler) and x.name:
                    out.add(x.name)
        return out

    MUTATORS = set(['append', 'extend', 'remove', 'pop', 'sort', 'reverse', 'insert', 'clear', 'update', 'setdefault'])
    PURE_CALLS = set(['Logger', 'len', 'abs', 'max', 'min', 'float', 'int', 'str', 'repr', 'print', 'type', 'isinstance', 'range', 'format'])

    def loop_modifies(self, n, lspec):
        if lspec is not None and lspec.modifies is not None:
            return list(lspec.modifies)
        # default: syntactic write-set; anything that is not obviously pure havocs the whole heap
        for x in ast.walk(ast.Module(body=n.body, type_ignores=[])):
            if isinstance(x, (ast.Attribute, ast.Subscript)) and isinstance(x.ctx, (ast.Store, ast.Del)):
                return ['*']
            if isinstance(x, ast.Call):
                f = x.func
                if isinstance(f, ast.Name) and f.id in self.PURE_CALLS:
                    continue
                if isinstance(f, ast.Attribute) and f.attr in ('format', 'strip', 'replace', 'startswith', 'endswith', 'find', 'lower', 'join', 'keys', 'values', 'items'):
                    continue
                return ['*']
            if isinstance(x, (ast.List, ast.ListComp, ast.Dict)):
                return ['*']
        return []

    def frame_entry(self, st):
        return st.ctl.inl[1] if st.ctl.inl is not None else self.entry_state

    def check_invs(self, what, ordinal, lspec, st, extra, line):
        ent = self.frame_entry(st)
        ctx = SpecCtx(st, old=ent, extra=extra, entry=ent)
        for (iname, iexpr) in (lspec.invariants if lspec else ()):
            f = self.speceval.formula(iexpr, ctx)
            st.assume(*ctx.side)
            lname = ('loop%d' % ordinal) if isinstance(ordinal, int) else ('%s(%s)/loop' % (st.ctl.inl[3].name, ordinal))
            o = self.oblige('%s/%s/%s' % (lname, what, iname), st, f, line)
            snap = st.fork()
            o.ctx = SpecCtx(snap, old=ent, extra=extra, entry=ent)      # snapshot for the developer probe tool
            o.engine = self
            if what == 'inv_step' and iname in lspec.uses:
                keep = lspec.uses[iname] | set([iname])
                tags = getattr(st, 'inv_tags', {})
                o.hyps = [h for h in o.hyps if not (h.get_id() in tags and tags[h.get_id()][0] == id(lspec) and tags[h.get_id()][1] not in keep)]

    def assume_invs(self, lspec, st, extra):
        ent = self.frame_entry(st)
        ctx = SpecCtx(st, old=ent, extra=extra, entry=ent)
        tags = dict(getattr(st, 'inv_tags', {}))
        for (iname, iexpr) in (lspec.invariants if lspec else ()):
            f = self.speceval.formula(iexpr, ctx)
            st.assume(f)
            tags[f.get_id()] = (id(lspec), iname)
            st.assume(*ctx.side)
        st.inv_tags = tags

    def loop_ghosts(self, lspec, st, extra):
        """ghost values captured at loop entry (before the havoc); visible to the invariants of this
        loop and, through st.ghost, to everything after"""
        if lspec is None or not lspec.ghost:
            return
        ent = self.frame_entry(st)
        ctx = SpecCtx(st, old=ent, extra=extra, entry=ent)
        st.ghost = dict(st.ghost)
        for gname, gexpr in lspec.ghost.items():
            v = self.speceval.value(gexpr, ctx)
            st.ghost[gname] = v
            extra[gname] = v

    def havoc_locals(self, st, names):
        for nm in names:
            if nm in st.env:
                v = st.env[nm]
                if v.ty.kind == 'tup':
                    items = v.items if v.items is not None else unpack(v.ty, v.t).items
                    st.env[nm] = SV(v.ty, None, [self.fresh_like(x, nm, st) for x in items])
                elif v.ty.kind in ('none', 'exc', 'meta'):
                    # the type itself may change in the loop: not supported unless re-assigned before use
                    st.env[nm] = SV(Ty('havoc'), None, None, nm)
                else:
                    st.env[nm] = self.fresh_like(v, nm, st)

    def fresh_like(self, v, nm, st):
        if v.ty.kind == 'tup':
            items = v.items if v.items is not None else unpack(v.ty, v.t).items
            return SV(v.ty, None, [self.fresh_like(x, nm, st) for x in items])
        if v.ty.kind in ('none', 'exc', 'meta', 'havoc'):
            return SV(Ty('havoc'), None, None, nm)
        nv = unpack(v.ty, z3.Const(fresh_name(nm), sort_of(v.ty)))
        nv.meta = v.meta
        st.assume_wf(nv)
        return nv

    def ex_While(self, n, st, k):
        ordinal, lspec = self.loop_spec(n, st)
        if n.orelse:
            raise Unsupported('while/else')
        line = n.lineno
        outer = st.ctl
        if ordinal is None:
            raise Unsupported('loop inside an inlined callee needs a contract for the callee (line %d)' % line)
        extra = {}
        self.loop_ghosts(lspec, st, extra)
        self.check_invs('inv_entry', ordinal, lspec, st, extra, line)
        names = self.assigned_names(n.body)
        head = st
        self.havoc(head, self.loop_modifies(n, lspec))
        self.havoc_locals(head, names)
        self.assume_invs(lspec, head, extra)
        head.note('loop%s' % ordinal)
        dec0 = None
        if lspec is not None and lspec.decreases:
            cx = SpecCtx(head, old=self.entry_state, extra=extra)
            dec0 = self.speceval.value(lspec.decreases, cx)

        def after(s):
            s.ctl = outer
            k(s)

        def body_end(s):
            s.ctl = outer
            self.check_invs('inv_step', ordinal, lspec, s, extra, line)
            if dec0 is not None:
                cx = SpecCtx(s, old=self.entry_state, extra=extra)
                d1 = self.speceval.value(lspec.decreases, cx)
                self.oblige('loop%s/decreases' % ordinal, s, z3.And(dec0.t >= 0, d1.t < dec0.t), line)
            # path ends here (cut point)

        def got(s, c):
            def on(s2, b):
                def enter(s3):
                    s3.ctl = outer.but(brk=after, cont=body_end)
                    self.ex_block(n.body, s3, body_end)
                self.branch(s2, b, enter, after, note='while%s' % ordinal)
            self.truth(s, c, on)
        return self.ev(n.test, head, got)

    def ex_For(self, n, st, k):
        if n.orelse:
            raise Unsupported('for/else')
        ordinal, lspec = self.loop_spec(n, st)
        line = n.lineno
        # literal tuple/list: unrolled completely (exact)
        if isinstance(n.iter, (ast.Tuple, ast.List)) and all(isinstance(e, ast.Constant) for e in n.iter.elts):
            return self.unroll_for(n, [e for e in n.iter.elts], st, k)
        if isinstance(n.iter, ast.Call) and isinstance(n.iter.func, ast.Name) and n.iter.func.id == 'range':
            return self.ev_seq(n.iter.args, st, lambda s, vs: self.for_range(n, vs, s, k, ordinal, lspec))
        def got(s, it):
            if it.ty.kind == 'tup':
                items = it.items if it.items is not None else unpack(it.ty, it.t).items
                if lspec is not None and lspec.invariants and not lspec.unroll and items:
                    # cut at the invariant: element i of the tuple as an if-chain over the index
                    def elem_at(s2, i):
                        t = pack(items[-1])
                        for q in reversed(range(len(items) - 1)):
                            t = z3.If(i == q, pack(items[q]), t)
                        return unpack(items[0].ty, t)
                    return self.for_generic(n, s, k, ordinal, lspec, z3.IntVal(0), lambda s2, i: i < len(items), elem_at, {'_it': it})
                return self.unroll_vals(n, items, s, k)
            on_head = None
            if it.ty.kind == 'dict' or (it.ty.kind == 'ref' and self.ctab.dict_kv(it.ty.args[0])):
                s.assume(*s.dict_key_axioms(it))
                d = it
                it = s.dict_keylist(it)
                kl = it
                def on_head(hs):
                    # T-LIB key enumeration facts restated on the loop-head state, when the dict
                    # itself is outside the loop's write set
                    if z3.eq(hs.dict_keylist(d).t, kl.t) or True:
                        hs.assume(z3.Implies(hs.dict_keylist(d).t == kl.t, z3.And(*hs.dict_key_axioms(d))))
            if it.ty.kind != 'list':
                raise Unsupported('for over %s (line %d)' % (it.ty, line))
            self.for_list(n, it, s, k, ordinal, lspec, on_head)
        return self.ev(n.iter, st, got)

    def unroll_for(self, n, elts, st, k):
        outer = st.ctl
        def step(i, s):
            s.ctl = outer
            if i == len(elts):
                return k(s)
            def got(s2, v):
                def nxt(s3):
                    step(i + 1, s3)
                s2.ctl = outer.but(brk=lambda s3: (setattr(s3, 'ctl', outer), k(s3))[1], cont=nxt)
                self.assign(n.target, v, s2, lambda s3: self.ex_block(n.body, s3, nxt))
            self.ev(elts[i], s, got)
        return step(0, st)

    def unroll_vals(self, n, items, st, k):
        outer = st.ctl
        def step(i, s):
            s.ctl = outer
            if i == len(items):
                return k(s)
            def nxt(s3):
                step(i + 1, s3)
            s.ctl = outer.but(brk=lambda s3: (setattr(s3, 'ctl', outer), k(s3))[1], cont=nxt)
            self.assign(n.target, items[i], s, lambda s3: self.ex_block(n.body, s3, nxt))
        return step(0, st)

    def for_range(self, n, vs, st, k, ordinal, lspec):
        if len(vs) == 1:
            lo, hi = z3.IntVal(0), vs[0].t
        elif len(vs) == 2:
            lo, hi = vs[0].t, vs[1].t
        else:
            raise Unsupported('range with step')
        if not isinstance(n.target, ast.Name):
            raise Unsupported('range loop target')
        self.for_generic(n, st, k, ordinal, lspec, lo, lambda s, i: i < hi, lambda s, i: SV(INT, i),
                         {'_lo': SV(INT, lo), '_hi': SV(INT, hi)})

    def for_list(self, n, it, st, k, ordinal, lspec, on_head=None):
        self.for_generic(n, st, k, ordinal, lspec, z3.IntVal(0), lambda s, i: i < s.list_len(it),
                         lambda s, i: s.list_get(it, i), {'_it': it}, on_head)

    def for_generic(self, n, st, k, ordinal, lspec, start, in_range, elem_at, extra0, on_head=None):
        line = n.lineno
        outer = st.ctl
        if ordinal is None:
            raise Unsupported('loop inside an inlined callee needs a contract for the callee (line %d)' % line)
        iname = (lspec.index if lspec and lspec.index else '_i%s' % ordinal)
        gname = iname if isinstance(ordinal, int) else '%s@%s' % (iname, ordinal)   # ghost key (unique per inlined instance)
        self.loop_ghosts(lspec, st, extra0)
        extra = dict(extra0)
        extra[iname] = SV(INT, start)
        self.check_invs('inv_entry', ordinal, lspec, st, extra, line)
        names = self.assigned_names(n.body) | self.assigned_names([n.target]) if False else self.assigned_names(n.body)
        tnames = set(x.id for x in ast.walk(n.target) if isinstance(x, ast.Name))
        head = st
        self.havoc(head, self.loop_modifies(n, lspec))
        self.havoc_locals(head, names - tnames)
        i = z3.Int(fresh_name(iname))
        head.assume(i >= start)
        extra_h = dict(extra0)
        extra_h[iname] = SV(INT, i)
        self.assume_invs(lspec, head, extra_h)
        if on_head is not None:
            on_head(head)
        head.ghost = dict(head.ghost)
        head.ghost[gname] = SV(INT, i)      # after the loop: the index value at exit
        head.note('loop%s' % ordinal)

        def after(s):
            s.ctl = outer
            # ghost snapshot of the state in which the loop was left: at(_loop_exit, e) in ghost checkpoints after the loop
            s.ghost = dict(s.ghost)
            s.ghost['_loop_exit'] = SV(Ty('heap'), None, None, s.fork())
            k(s)

        def body_end(s):
            s.ctl = outer
            e2 = dict(extra0)
            e2[iname] = SV(INT, i + 1)
            self.check_invs('inv_step', ordinal, lspec, s, e2, line)

        def enter(s):
            v = elem_at(s, i)
            s.assume_wf(v)
            s.ctl = outer.but(brk=after, cont=body_end)
            s.ghost = dict(s.ghost)
            s.ghost[gname] = SV(INT, i)
            # ghost snapshot of the state at the start of this iteration: at(_iter_start, e) in ghost checkpoints of the body
            s.ghost['_iter_start'] = SV(Ty('heap'), None, None, s.fork())
            def bound(s2, v2):
                pre = list(lspec.body_ghost) if lspec is not None and getattr(lspec, 'body_ghost', None) else []
                self.assign(n.target, v2, s2, lambda s3: self.ex_block(pre + list(n.body), s3, body_end))
            self.resolve_opt(s, v, bound)

        self.branch(head, in_range(head, i), enter, after, note='for%s' % ordinal)


def loop_header(n):
    try:
        if isinstance(n, ast.For):
            return 'for %s in %s' % (ast.unparse(n.target), ast.unparse(n.iter))
        return 'while %s' % ast.unparse(n.test)
    except Exception:
        return None


def ordinal_of(lspec, engine):
    for o, l in engine.cur_spec.loops.items():
        if l is lspec:
            return o
    return -1


def st_is_top(engine):
    return True
