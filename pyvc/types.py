"""
types.py - static types of the symbolic executor, their SMT sorts, symbolic values.
"""
import z3

_cnt = [0]


def fresh_name(base):
    _cnt[0] += 1
    return '%s!%d' % (base, _cnt[0])


class Unsupported(Exception):
    """construct outside the verified subset: obligations become *undecided*, never *violated*"""
    pass


class Ty(object):
    __slots__ = ('kind', 'args')

    def __init__(self, kind, *args):
        self.kind = kind
        self.args = args

    def __eq__(self, o):
        return isinstance(o, Ty) and self.kind == o.kind and self.args == o.args

    def __ne__(self, o):
        return not self.__eq__(o)

    def __hash__(self):
        return hash((self.kind, self.args))

    def __repr__(self):
        if not self.args:
            return self.kind
        return '%s[%s]' % (self.kind, ','.join(map(str, self.args)))

    @property
    def is_reflike(self):
        return self.kind in ('ref', 'list', 'dict')


INT = Ty('int')
FLOAT = Ty('float')
BOOL = Ty('bool')
STR = Ty('str')
NONE = Ty('none')
ANY = Ty('any')
EXC = Ty('exc')          # an exception object bound by `except E as er` (opaque)
FUNC = Ty('func')


def Ref(cls):
    return Ty('ref', cls)


def List(elem):
    return Ty('list', elem)


def Dict(k, v):
    return Ty('dict', k, v)


def Tup(*elems):
    return Ty('tup', *elems)


def Opt(t):
    if t.kind == 'opt':
        return t
    return Ty('opt', t)


# ---- float model --------------------------------------------------------------------------
# mode 'real': Python floats are mathematical reals (no rounding, no overflow, no inf/nan)
# mode 'xreal': extended reals: tag in {FIN, PINF, NINF, NAN} + Real; overflow beyond DBL_MAX
#               saturates to +-inf, rounding is not modelled
Tag, (FIN, PINF, NINF, NAN) = z3.EnumSort('Tag', ['FIN', 'PINF', 'NINF', 'NAN'])
_XR = z3.Datatype('XR')
_XR.declare('xr', ('tag', Tag), ('val', z3.RealSort()))
XR = _XR.create()
DBL_MAX = z3.RealVal('179769313486231570814527423731704356798070567525844996598917476803157260780028538760589558632766878171540458953514382464234321326889464182768467546703537516986049910576551282076245490090389328944075868508455133942304583236903222948165808559332123348274797826204144723168738177180919299881250404026184124858368')

FLOAT_MODE = ['real']


def set_float_mode(m):
    assert m in ('real', 'xreal')
    FLOAT_MODE[0] = m


def float_sort():
    return z3.RealSort() if FLOAT_MODE[0] == 'real' else XR


# ---- universal value (only where Python code is genuinely polymorphic: eval results etc.) ----
_ANY = z3.Datatype('AnyV')
_ANY.declare('a_none')
_ANY.declare('a_int', ('ai', z3.IntSort()))
_ANY.declare('a_real', ('ar', z3.RealSort()))      # float in 'real' mode
_ANY.declare('a_xr', ('ax', XR))                   # float in 'xreal' mode
_ANY.declare('a_bool', ('ab', z3.BoolSort()))
_ANY.declare('a_str', ('as_', z3.StringSort()))
_ANY.declare('a_ref', ('aref', z3.IntSort()), ('acls', z3.IntSort()))   # list / tuple / dict / object
_ANY.declare('a_other', ('ao', z3.IntSort()))
ANYV = _ANY.create()

_tup_sorts = {}
_opt_sorts = {}


def sortkey(ty):
    k = ty.kind
    if k == 'int':
        return 'I'
    if k == 'float':
        return 'F' if FLOAT_MODE[0] == 'real' else 'X'
    if k == 'bool':
        return 'B'
    if k == 'str':
        return 'S'
    if k in ('ref', 'list', 'dict', 'func', 'exc'):
        return 'R'
    if k == 'none':
        return 'R'
    if k == 'any':
        return 'A'
    if k == 'tup':
        return 'T' + '_'.join(sortkey(a) for a in ty.args) + 'E'
    if k == 'opt':
        inner = ty.args[0]
        if inner.is_reflike:
            return 'R'
        return 'O' + sortkey(inner)
    raise Unsupported('sortkey ' + str(ty))


def sort_of(ty):
    k = ty.kind
    if k == 'int':
        return z3.IntSort()
    if k == 'float':
        return float_sort()
    if k == 'bool':
        return z3.BoolSort()
    if k == 'str':
        return z3.StringSort()
    if k in ('ref', 'list', 'dict', 'none', 'func', 'exc'):
        return z3.IntSort()
    if k == 'any':
        return ANYV
    if k == 'tup':
        key = sortkey(ty)
        if key not in _tup_sorts:
            d = z3.Datatype(key)
            d.declare('mk_' + key, *[('p%d_%s' % (i, key), sort_of(a)) for i, a in enumerate(ty.args)])
            _tup_sorts[key] = d.create()
        return _tup_sorts[key]
    if k == 'opt':
        inner = ty.args[0]
        if inner.is_reflike:
            return z3.IntSort()
        key = sortkey(ty)
        if key not in _opt_sorts:
            d = z3.Datatype(key)
            d.declare('none_' + key)
            d.declare('some_' + key, ('get_' + key, sort_of(inner)))
            _opt_sorts[key] = d.create()
        return _opt_sorts[key]
    raise Unsupported('sort_of ' + str(ty))


class SV(object):
    """symbolic value: static type + z3 term (tuples: list of component values)"""
    __slots__ = ('ty', 't', 'items', 'meta')

    def __init__(self, ty, t=None, items=None, meta=None):
        self.ty = ty
        self.t = t
        self.items = items
        self.meta = meta

    def __repr__(self):
        if self.ty.kind == 'tup' and self.items is not None:
            return 'SV(tup %r)' % (self.items,)
        return 'SV(%s %s)' % (self.ty, self.t)


NONE_V = SV(NONE, z3.IntVal(0))


def mk_int(i):
    return SV(INT, z3.IntVal(i) if isinstance(i, int) else i)


def mk_bool(b):
    return SV(BOOL, z3.BoolVal(b) if isinstance(b, bool) else b)


def mk_str(s):
    return SV(STR, z3.StringVal(s) if isinstance(s, str) else s)


def xr_fin(r):
    return XR.xr(FIN, r)


def mk_float(x):
    """x: python number or z3 Real term (finite value)"""
    if isinstance(x, (int, float)):
        if x != x:
            if FLOAT_MODE[0] == 'real':
                raise Unsupported('nan literal in real float mode')
            return SV(FLOAT, XR.xr(NAN, z3.RealVal(0)))
        if x in (float('inf'), float('-inf')):
            if FLOAT_MODE[0] == 'real':
                raise Unsupported('inf literal in real float mode')
            return SV(FLOAT, XR.xr(PINF if x > 0 else NINF, z3.RealVal(0)))
        r = z3.RealVal(repr(float(x))) if isinstance(x, float) else z3.RealVal(x)
    else:
        r = x
    if FLOAT_MODE[0] == 'real':
        return SV(FLOAT, r)
    return SV(FLOAT, xr_fin(r))


def pack(sv, ty=None):
    """z3 term of `sv` in the sort of `ty` (for storing in containers / fields)"""
    ty = ty or sv.ty
    if sv.ty == ty and sv.t is not None and sv.items is None:
        return sv.t
    if ty.kind == 'opt':
        inner = ty.args[0]
        if inner.is_reflike:
            if sv.ty.kind == 'none':
                return z3.IntVal(0)
            return pack(sv, inner)
        s = sort_of(ty)
        if sv.ty.kind == 'none':
            return s.constructor(0)()
        return s.constructor(1)(pack(sv, inner))
    if ty.kind == 'any':
        return to_any(sv)
    if ty.kind == 'tup':
        if sv.ty.kind != 'tup':
            raise Unsupported('pack: %s as %s' % (sv.ty, ty))
        if sv.items is None:
            return sv.t
        s = sort_of(ty)
        if len(sv.items) != len(ty.args):
            raise Unsupported('tuple arity')
        return s.constructor(0)(*[pack(x, a) for x, a in zip(sv.items, ty.args)])
    if ty.kind == 'float' and sv.ty.kind == 'int':
        return mk_float(z3.ToReal(sv.t)).t
    if ty.kind == 'float' and sv.ty.kind == 'bool':
        return mk_float(z3.If(sv.t, z3.RealVal(1), z3.RealVal(0))).t
    if ty.is_reflike and sv.ty.kind == 'none':
        return z3.IntVal(0)
    if sv.ty.kind == 'any' and ty.kind != 'any':
        return from_any(sv, ty).t
    if sortkey(sv.ty) != sortkey(ty):
        raise Unsupported('pack: %s as %s' % (sv.ty, ty))
    return sv.t


def unpack(ty, term):
    if ty.kind == 'tup':
        s = sort_of(ty)
        return SV(ty, term, [unpack(a, s.accessor(0, i)(term)) for i, a in enumerate(ty.args)])
    return SV(ty, term)


def to_any(sv):
    k = sv.ty.kind
    if k == 'any':
        return sv.t
    if k == 'none':
        return ANYV.a_none
    if k == 'int':
        return ANYV.a_int(sv.t)
    if k == 'float':
        return ANYV.a_real(sv.t) if FLOAT_MODE[0] == 'real' else ANYV.a_xr(sv.t)
    if k == 'bool':
        return ANYV.a_bool(sv.t)
    if k == 'str':
        return ANYV.a_str(sv.t)
    if k in ('ref', 'list', 'dict'):
        return ANYV.a_ref(sv.t, z3.IntVal(cls_tag(sv.ty)))
    if k == 'tup':
        raise Unsupported('tuple into Any')
    raise Unsupported('to_any ' + str(sv.ty))


_cls_tags = {}


def cls_tag(ty):
    key = repr(ty) if ty.kind != 'ref' else ty.args[0]
    if key not in _cls_tags:
        _cls_tags[key] = len(_cls_tags) + 1
    return _cls_tags[key]


def from_any(sv, ty):
    """project an Any value onto a concrete type (caller has established the tag)"""
    k = ty.kind
    t = sv.t
    if k == 'int':
        return SV(INT, ANYV.ai(t))
    if k == 'float':
        return SV(FLOAT, ANYV.ar(t) if FLOAT_MODE[0] == 'real' else ANYV.ax(t))
    if k == 'bool':
        return SV(BOOL, ANYV.ab(t))
    if k == 'str':
        return SV(STR, ANYV.as_(t))
    if k in ('ref', 'list', 'dict'):
        return SV(ty, ANYV.aref(t))
    raise Unsupported('from_any ' + str(ty))


def any_is(sv, kind):
    t = sv.t
    if kind == 'int':
        return ANYV.is_a_int(t)
    if kind == 'float':
        return ANYV.is_a_real(t) if FLOAT_MODE[0] == 'real' else ANYV.is_a_xr(t)
    if kind == 'str':
        return ANYV.is_a_str(t)
    if kind == 'bool':
        return ANYV.is_a_bool(t)
    if kind == 'none':
        return ANYV.is_a_none(t)
    if kind == 'ref':
        return ANYV.is_a_ref(t)
    raise Unsupported('any_is ' + kind)


def forall(vs, body, patterns=None):
    """z3.ForAll with patterns when z3 accepts them, without otherwise"""
    if patterns and not any(_has_ite(p) for p in patterns):
        try:
            return z3.ForAll(vs, body, patterns=patterns)
        except z3.Z3Exception:
            pass
    return z3.ForAll(vs, body)


def _has_ite(t, depth=0):
    if depth > 12:
        return True
    if z3.is_app(t):
        if t.decl().kind() == z3.Z3_OP_ITE:
            return True
        return any(_has_ite(c, depth + 1) for c in t.children())
    return False
