"""
verify.py - verify one real function of /repo against its sidecar contract.
"""
import ast
import sys
import threading
import time
import traceback
import z3
from .types import *
from . import types as T
from . import ops
from .state import State, Ctl, ExcV
from .spec import SpecCtx, REG, opt_is_none
from .sym import Engine, Obligation, PathLimit

sys.setrecursionlimit(100000)
z3.set_param('memory_max_size', 8000)
threading.stack_size(512 * 1024 * 1024)


class FnResult(object):
    def __init__(self, spec):
        self.spec = spec
        self.qualname = spec.qualname
        self.name = spec.name
        self.obligations = []
        self.error = None          # Unsupported / missing function -> everything undecided
        self.sha = None
        self.paths = 0
        self.normal_outcomes = 0
        self.exc_outcomes = {}
        self.inlined = []
        self.contracts_used = []
        self.externs_used = []
        self.ghost_assumptions = []
        self.gen_s = 0.0


def loop_ordinals(fnode):
    out = {}
    cnt = [0]

    def walk(stmts):
        for s in stmts:
            if isinstance(s, (ast.For, ast.While)):
                out[id(s)] = cnt[0]
                cnt[0] += 1
            for field in ('body', 'orelse', 'finalbody'):
                sub = getattr(s, field, None)
                if isinstance(sub, list):
                    walk(sub)
            if isinstance(s, ast.Try):
                for h in s.handlers:
                    walk(h.body)
    walk(fnode.body)
    return out


def _verify(repo, ctab, spec, res):
    set_float_mode(spec.float_mode)
    fi = repo.func(spec.qualname)
    if fi is None:
        res.error = 'function %s not found in the working tree' % spec.qualname
        return
    res.sha = fi.sha
    E = Engine(repo, ctab)
    E.cur_spec = spec
    E.cur_fi = fi
    E.depth0 = True
    E.loop_ordinals = loop_ordinals(fi.node)
    from .sym import loop_header
    E.loop_headers = {}
    for sub in ast.walk(fi.node):
        if isinstance(sub, (ast.For, ast.While)) and id(sub) in E.loop_ordinals:
            E.loop_headers[E.loop_ordinals[id(sub)]] = loop_header(sub)
    st = State(ctab)
    st.assume(st.alloc > 0)
    env = {}
    arg_names = [a for a, _ in spec.args]
    for (nm, ty) in spec.args:
        if ty.kind == 'none':
            env[nm] = NONE_V
            continue
        if ty.kind == 'tup':
            v = unpack(ty, z3.Const('arg_' + nm, sort_of(ty)))
        else:
            v = unpack(ty, z3.Const('arg_' + nm, sort_of(ty)))
        if ty.is_reflike:
            st.assume(z3.And(v.t > 0, v.t < st.alloc), st.tag_fact(v))
        else:
            st.assume_wf(v)
        env[nm] = v
    st.env = env
    outcomes = []

    def start(s):
        # defaults of parameters not mentioned in the spec
        missing = [(nm, d) for nm, d in fi.params() if nm not in s.env]

        def step(i, s2):
            if i == len(missing):
                return go(s2)
            nm, d = missing[i]
            if d is None:
                raise Unsupported('spec for %s gives no type for parameter %s' % (spec.qualname, nm))
            def got(s3, v):
                s3.env[nm] = v
                step(i + 1, s3)
            E.ev(d, s2, got)
        step(0, s)

    def go(s):
        entry = s.fork()
        ctx = SpecCtx(entry, old=entry)
        E.requires_ids = set()
        n_entry_pc = len(entry.pc)
        for (rn, rexpr) in list(spec.requires) + list(spec.assumes):
            f = E.speceval.formula(rexpr, ctx)
            # well-formedness facts of the values the precondition reads in the entry state ("allocated at entry")
            for wf in entry.pc[n_entry_pc:]:
                s.assume(wf)
                E.requires_ids.add(wf.get_id())
            n_entry_pc = len(entry.pc)
            s.assume(f)
            s.assume(*ctx.side)
            E.requires_ids.add(f.get_id())
            for sf in ctx.side:
                E.requires_ids.add(sf.get_id())
            if z3.is_and(f):          # conjunctions are kept as a whole; remember the parts too
                for c in f.children():
                    E.requires_ids.add(c.get_id())
        entry = s.fork()
        E.entry_state = entry
        s.entry = entry
        E.obligations.append(_mk(spec, 'cover/requires', s, z3.BoolVal(True), kind='cover', line=fi.node.lineno, entry=entry))

        def ret(s2, v):
            outcomes.append(('return', s2, v, entry))

        def handler(s2, exc):
            outcomes.append(('raise', s2, exc, entry))
        s.ctl = Ctl(ret=ret, brk=None, cont=None, handler=handler, depth=0, fname=fi.qualname)
        E.ex_block(fi.node.body, s, lambda s2: ret(s2, NONE_V))

    # Optional-typed parameters are resolved into None / not-None paths before the body runs
    opt_args = [nm for nm, ty in spec.args if ty.kind == 'opt']

    def resolve(i, s):
        if i == len(opt_args):
            return start(s)
        nm = opt_args[i]
        def got(s2, v):
            s2.env[nm] = v
            resolve(i + 1, s2)
        E.resolve_opt(s, s.env[nm], got)
    resolve(0, st)

    # ---- postconditions ---------------------------------------------------------------------
    for (kind, s, val, entry) in outcomes:
        env_post = dict(entry.env)
        ps = s.fork()
        # parameters keep their entry values in postconditions (Python rebinding of a parameter
        # name is local); locals of the function are visible too (for ghost reasoning)
        for knm, kv in s.env.items():
            if knm not in env_post:
                env_post[knm] = kv
        ps.env = env_post
        if kind == 'return':
            res.normal_outcomes += 1
            result = val
            if spec.returns is not None and result.ty.kind != 'none':
                try:
                    result = E.coerce(result, spec.returns) if spec.returns.kind in ('float', 'any') else result
                except Unsupported:
                    pass
            ctx = SpecCtx(ps, old=entry, result=result, entry=entry)
            _bind_defs(E, spec, ctx, entry)
            E.obligations.append(_mk(spec, 'cover/return', s, z3.BoolVal(True), kind='cover', line=None, trace=s.trace, entry=entry))
            for (en, eexpr, opts) in spec.ensures:
                needs = (opts or {}).get('needs')
                if needs and any(nm not in ps.env and nm not in ps.ghost for nm in needs):
                    continue      # clause about locals that do not exist on this path
                f = E.speceval.formula(eexpr, ctx)
                s.assume(*ctx.side)
                cases = (opts or {}).get('cases')
                if cases:
                    preds = []
                    for cn, cexpr in cases.items():
                        cp = E.speceval.formula(cexpr, ctx)
                        preds.append(cp)
                        E.obligations.append(_mk(spec, 'ensures/%s[case=%s]' % (en, cn), s, z3.Implies(cp, f), trace=s.trace, entry=entry))
                    E.obligations.append(_mk(spec, 'ensures/%s[otherwise]' % en, s, z3.Implies(z3.Not(z3.Or(*preds)), f), trace=s.trace, entry=entry))
                else:
                    o_ = _mk(spec, 'ensures/' + en, s, f, trace=s.trace, entry=entry)
                    o_.ctx = ctx
                    o_.engine = E
                    E.obligations.append(o_)
            ctx0 = SpecCtx(entry, old=entry)
            for rs in spec.raises:
                if rs.iff:
                    w = E.speceval.formula(rs.when, ctx0)
                    s.assume(*ctx0.side)
                    E.obligations.append(_mk(spec, 'raises/%s/must_raise' % rs.exc, s, z3.Not(w), trace=s.trace, entry=entry))
        else:
            exc = val
            res.exc_outcomes[exc.cls] = res.exc_outcomes.get(exc.cls, 0) + 1
            matching = [rs for rs in spec.raises if E.exc_is_sub(exc.cls, rs.exc)]
            ctx0 = SpecCtx(entry, old=entry)
            if not matching:
                if spec.only_raises:
                    o = _mk(spec, 'raises/%s/unexpected' % exc.cls, s, z3.BoolVal(False), trace=s.trace, entry=entry)
                    o.info = 'exception %s (%s) is not allowed by the contract' % (exc.cls, exc.origin)
                    E.obligations.append(o)
                continue
            whens = [E.speceval.formula(rs.when, ctx0) for rs in matching]
            s.assume(*ctx0.side)
            E.obligations.append(_mk(spec, 'raises/%s/when' % exc.cls, s, z3.Or(*whens), trace=s.trace, entry=entry))
            ctx = SpecCtx(ps, old=entry, entry=entry)
            _bind_defs(E, spec, ctx, entry)
            for rs, w in zip(matching, whens):
                for (en, eexpr, opts) in rs.ensures:
                    f = E.speceval.formula(eexpr, ctx)
                    s.assume(*ctx.side)
                    cases = (opts or {}).get('cases')
                    if cases:
                        preds = []
                        for cn, cexpr in cases.items():
                            cp = E.speceval.formula(cexpr, ctx)
                            preds.append(cp)
                            E.obligations.append(_mk(spec, 'raises/%s/%s[case=%s]' % (rs.exc, en, cn), s, z3.Implies(z3.And(w, cp), f), trace=s.trace, entry=entry))
                        E.obligations.append(_mk(spec, 'raises/%s/%s[otherwise]' % (rs.exc, en), s, z3.Implies(z3.And(w, z3.Not(z3.Or(*preds))), f), trace=s.trace, entry=entry))
                    else:
                        E.obligations.append(_mk(spec, 'raises/%s/%s' % (rs.exc, en), s, z3.Implies(w, f), trace=s.trace, entry=entry))
    # watch terms (entry-state expressions whose model values seed the native replay)
    if spec.watch:
        cache = {}
        for o in E.obligations:
            ent = getattr(o, 'entry', None)
            if ent is None:
                continue
            if id(ent) not in cache:
                w = {}
                for wexpr in spec.watch:
                    try:
                        c0 = SpecCtx(ent.fork(), old=ent)
                        _bind_defs(E, spec, c0, ent)
                        v = E.speceval.value(wexpr, c0)
                        if v.ty.kind == 'none':
                            w[wexpr] = z3.StringVal('None')
                        elif v.t is not None:
                            w[wexpr] = v.t
                    except Unsupported:
                        pass
                cache[id(ent)] = w
            o.watch = cache[id(ent)]
    res.obligations = E.obligations
    res.paths = len(outcomes)
    res.inlined = sorted(E.inlined)
    res.contracts_used = sorted(E.contracts_used)
    res.externs_used = sorted(E.externs_used)
    res.ghost_assumptions = sorted(set(E.assumptions))


def _bind_defs(E, spec, ctx, entry):
    c0 = SpecCtx(entry, old=entry)
    for (dn, dexpr) in spec.old_defs:
        c0.extra.update(ctx.extra)
        ctx.extra[dn] = E.speceval.value(dexpr, c0)
    for (dn, dexpr) in spec.defs:
        ctx.extra[dn] = E.speceval.value(dexpr, ctx)


def _mk(spec, name, st, goal, kind='check', line=None, trace=(), entry=None):
    o = Obligation('%s/%s' % (spec.name, name), st.pc, goal, line, trace, kind, spec.qualname)
    o.entry = entry
    return o


def verify_function(repo, ctab, spec):
    res = FnResult(spec)
    t0 = time.time()
    box = {}

    def run():
        try:
            from . import ops as _ops
            _ops.STRIP_RICH = bool(spec.hints.get('strip_rich')) if isinstance(spec.hints, dict) else False
            _verify(repo, ctab, spec, res)
        except Unsupported as ex:
            res.error = 'outside the verified subset: %s' % (ex,)
            import os
            if os.environ.get('PYVC_TRACE'):
                traceback.print_exc()
        except PathLimit as ex:
            res.error = 'path limit: %s' % (ex,)
        except RecursionError:
            res.error = 'recursion limit in the executor'
        except Exception:
            box['crash'] = traceback.format_exc()
    th = threading.Thread(target=run)
    th.start()
    th.join()
    res.gen_s = time.time() - t0
    if 'crash' in box:
        res.error = 'checker crash: ' + box['crash']
        res.crashed = True
    return res
