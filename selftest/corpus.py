"""Property-breaking mutants (must be caught, with the named obligation) and benign edits (must stay quiet)."""
MUTANTS = []
BENIGN = []


def mut(pid, name, edits, expect, **kw):
    MUTANTS.append(dict(pid=pid, name=name, edits=edits, expect=expect, **kw))


def ben(pid, name, edits, **kw):
    BENIGN.append(dict(pid=pid, name=name, edits=edits, **kw))


# ---- C16 ---------------------------------------------------------------------------------------------
mut('C16', 'GetTimeSeries-return-stored', [('models.py', "val = list(series_holder[series])", "val = series_holder[series]")], 'result_fresh')
mut('C16', 'GetTimeSeries-off-by-one', [('models.py', "val = series_holder[series][0:(cutoff + 1)]", "val = series_holder[series][0:cutoff]")], 'result_length')
mut('C16', 'GetTimeSeries-pop-last', [('models.py', "            val.pop(0)\n        return val", "            val.pop()\n        return val")], 'result_values')
mut('C16', 'GetTimeSeries-trim-store', [('models.py', "        if self.TimeSeriesSupressTimeZero:\n            val.pop(0)", "        if self.TimeSeriesSupressTimeZero:\n            val.pop(0)\n            series_holder[series] = val")], 'stored_dicts_unchanged')
mut('C16', 'CreateCsvString-shared-list', [('base_solver.py', "varlist = list(self.VariableList)", "varlist = self.VariableList")], ['frame', 'lists_unchanged'])
mut('C16', 'GetTimeSeries-cache-in-store', [('models.py', "                val = series_holder[series][0:(cutoff + 1)]", "                val = series_holder[series][0:(cutoff + 1)]\n                self.EquationSolver.TimeSeriesInitialSteadyState[series] = val")], 'stored_dicts_unchanged')
ben('C16', 'GetTimeSeries-rename-local', [('models.py', "                val = list(series_holder[series])\n            else:\n                val = series_holder[series][0:(cutoff + 1)]\n        except KeyError:\n            raise KeyError('Time series \"{0}\" does not exist'.format(series))\n        if self.TimeSeriesSupressTimeZero:\n            val.pop(0)\n        return val",
     "                out = list(series_holder[series])\n            else:\n                out = series_holder[series][0:(cutoff + 1)]\n        except KeyError:\n            raise KeyError('No such series \"{0}\"'.format(series))\n        if self.TimeSeriesSupressTimeZero:\n            out.pop(0)\n        return out")])
ben('C16', 'GetTimeSeries-slice-copy', [('models.py', "val = list(series_holder[series])", "val = series_holder[series][:]")])
ben('C16', 'CreateCsvString-slice-copy', [('base_solver.py', "varlist = list(self.VariableList)", "varlist = self.VariableList[:]")])
