"""Property-breaking mutants (must be caught, with the named obligation) and benign edits (must stay quiet)."""
MUTANTS = []
BENIGN = []


def mut(pid, name, edits, expect, **kw):
    MUTANTS.append(dict(pid=pid, name=name, edits=edits, expect=expect, **kw))


def ben(pid, name, edits, **kw):
    BENIGN.append(dict(pid=pid, name=name, edits=edits, **kw))


# ---- C16 ---------------------------------------------------------------------------------------------
mut('C16', 'GetTimeSeries-return-stored', [('models.py', "val = list(series_holder[series])", "val = series_holder[series]")], 'result_fresh')
mut('C16', 'GetTimeSeries-off-by-one', [('models.py', "val = series_holder[series][0:(cutoff + 1)]", "val = series_holder[series][0:cutoff]")], 'result_length')
mut('C16', 'GetTimeSeries-pop-last', [('models.py', "            val.pop(0)\n        return val", "            val.pop()\n        return val")], 'result_values')
mut('C16', 'GetTimeSeries-trim-store', [('models.py', "        if self.TimeSeriesSupressTimeZero:\n            val.pop(0)", "        if self.TimeSeriesSupressTimeZero:\n            val.pop(0)\n            series_holder[series] = val")], 'stored_dicts_unchanged')
mut('C16', 'CreateCsvString-shared-list', [('base_solver.py', "varlist = list(self.VariableList)", "varlist = self.VariableList")], ['frame', 'lists_unchanged'])
mut('C16', 'GetTimeSeries-cache-in-store', [('models.py', "                val = series_holder[series][0:(cutoff + 1)]", "                val = series_holder[series][0:(cutoff + 1)]\n                self.EquationSolver.TimeSeriesInitialSteadyState[series] = val")], 'stored_dicts_unchanged')
ben('C16', 'GetTimeSeries-rename-local', [('models.py', "                val = list(series_holder[series])\n            else:\n                val = series_holder[series][0:(cutoff + 1)]\n        except KeyError:\n            raise KeyError('Time series \"{0}\" does not exist'.format(series))\n        if self.TimeSeriesSupressTimeZero:\n            val.pop(0)\n        return val",
     "                out = list(series_holder[series])\n            else:\n                out = series_holder[series][0:(cutoff + 1)]\n        except KeyError:\n            raise KeyError('No such series \"{0}\"'.format(series))\n        if self.TimeSeriesSupressTimeZero:\n            out.pop(0)\n        return out")])
ben('C16', 'GetTimeSeries-slice-copy', [('models.py', "val = list(series_holder[series])", "val = series_holder[series][:]")])
ben('C16', 'CreateCsvString-slice-copy', [('base_solver.py', "varlist = list(self.VariableList)", "varlist = self.VariableList[:]")])

# ---- C19 ---------------------------------------------------------------------------------------------
mut('C19', 'GetSeriesList-no-sort', [('utils.py', "        serlist.sort()\n        included = []", "        included = []")], 'rest_sorted')
mut('C19', 'priority-order-swapped', [('utils.py', "'iteration_abs_change', 'k', 't')", "'iteration_abs_change', 't', 'k')")], 'documented_priority_order')
mut('C19', 'GetSeriesList-keeps-priority-in-rest', [('utils.py', "                included.append(x)\n                serlist.remove(x)", "                included.append(x)")], ['rest_are_keys', 'priority_then_alphabetical'])
mut('C19', 'csv-skips-first-row', [('utils.py', "for i in range(0, N):", "for i in range(1, N):")], ['table_so_far', 'bounds'])
mut('C19', 'csv-longest-series', [('utils.py', "N = min(lengths)", "N = max(lengths)")], ['N_at_most_every_length', 'IndexError'])
mut('C19', 'csv-drops-last-row', [('utils.py', "for i in range(0, N):", "for i in range(0, N - 1):")], ['header_then_rows', 'bounds'])
mut('C19', 'csv-space-separated-header', [('utils.py', "out = '\\t'.join(varz) + '\\n'", "out = ' '.join(varz) + '\\n'")], 'table_so_far')
mut('C19', 'csv-lagged-cell', [('utils.py', "row.append(self[v][i], )", "row.append(self[v][max(i - 1, 0)], )")], 'row_so_far')
mut('C19', 'csv-default-format-cells', [('utils.py', "row = [format_str % (x,) for x in row]", "row = ['%.5g' % (x,) for x in row]")], 'table_so_far')
mut('C19', 'csv-sorts-store', [('utils.py', "        varz = self.GetSeriesList()\n", "        varz = self.GetSeriesList()\n        for v in varz:\n            self[v].sort()\n")], ['frame', 'lists_unchanged', 'GenerateCSVtext'])
ben('C19', 'csv-rename-locals', [('utils.py', "        lengths = [len(x) for x in self.values()]\n        N = min(lengths)", "        sizes = [len(x) for x in self.values()]\n        N = min(sizes)")])
ben('C19', 'GetSeriesList-sorted-builtin-free', [('utils.py', "        serlist = list(self.keys())\n        serlist.sort()", "        serlist = list(self)\n        serlist.sort()")])

# ---- C15 ---------------------------------------------------------------------------------------------
ES = 'equation_solver.py'
mut('C15', 'relative-test-signed', [(ES, "err = abs(lastval - prev) / abs(lastval)", "err = abs(lastval - prev) / lastval")], 'accepted_so_far')
mut('C15', 'near-zero-test-inverted', [(ES, "                    if not abs(prev) < 1e-4:\n                        bad = True", "                    if abs(prev) < 1e-4:\n                        bad = True")], 'accepted_so_far')
mut('C15', 'installs-previous-point', [(ES, "self.TimeSeries[var][0] = lastval", "self.TimeSeries[var][0] = prev")], 'installed_so_far')
mut('C15', 'own-horizon-overwritten', [(ES, "        new_solver.Parser.MaxTime = T\n", "        self.Parser.MaxTime = T\n")], ['own_state_untouched', 'untouched'])
mut('C15', 'shallow-copy', [(ES, "return copy.deepcopy(self)", "return copy.copy(self)")], 'body_is_deepcopy_of_self')
mut('C15', 'one-bad-variable-tolerated', [(ES, "        if len(bad_variables) > 0:\n            Logger('Variables that did not", "        if len(bad_variables) > 1:\n            Logger('Variables that did not")], ['every_included_series_is_steady', 'every_included_series_is_installed'])
# (writing index -1 instead of 0 is equivalent under the function's precondition: series have one point)
mut('C15', 'absolute-test-dropped', [(ES, "            if abs(lastval-prev) > self.ParameterInitialSteadyStateErrorToler:\n                if abs(lastval) < 1e-4:", "            if abs(lastval-prev) > 10. * self.ParameterInitialSteadyStateErrorToler:\n                if abs(lastval) < 1e-4:")], 'accepted_so_far')
ben('C15', 'rename-locals', [(ES, "            lastval = TS[-1]\n            prev = TS[-2]", "            lastval = TS[len(TS) - 1]\n            prev = TS[len(TS) - 2]")])
ben('C15', 'log-text', [(ES, "Logger('Variables that did not converge in initial equilibrium')", "Logger('Variables that did not converge in the initial steady state search')")])

# ---- C06 ---------------------------------------------------------------------------------------------
mut('C06', 'AddTerm-subtracts', [('equation.py', "other.Constant += term.Constant", "other.Constant -= term.Constant")], 'den_additive')
mut('C06', 'AddTerm-merges-into-blob', [('equation.py', "if term.Term == other.Term and not other.IsBlob:", "if term.Term == other.Term:")], ['inv', 'bounded'])
mut('C06', 'AddTerm-overwrites-constant', [('equation.py', "other.Constant += term.Constant", "other.Constant = term.Constant")], 'den_additive')
mut('C06', 'AddTerm-match-inverted', [('equation.py', "if term.Term == other.Term and not other.IsBlob:", "if term.Term != other.Term and not other.IsBlob:")], ['no_earlier_match', 'den_additive'])
mut('C06', 'AddTerm-blob-anywhere', [('equation.py', "        if len(self.TermList) > 0:\n            if term.IsBlob:", "        if len(self.TermList) > 1:\n            if term.IsBlob:")], ['must_raise', 'inv'])
mut('C06', 'AddCashFlow-income-ignores-exclusion', [('sector.py', "                    if term_obj.Term == excluded:\n                        is_income = False", "                    if term_obj.Term == excluded:\n                        is_income = True")], 'INC_gains')
mut('C06', 'AddCashFlow-exclusion-any-sector', [('sector.py', "                if obj.ID == self.ID:\n                    if term_obj.Term == excluded:", "                if obj.ID >= 0:\n                    if term_obj.Term == excluded:")], 'INC_gains')
mut('C06', 'AddCashFlow-F-twice', [('sector.py', "        self.EquationBlock['F'].AddTerm(term)\n        if is_income:\n            # Need", "        self.EquationBlock['F'].AddTerm(term)\n        if is_income and not term.startswith('-'):\n            self.EquationBlock['F'].AddTerm(term)\n        if is_income:\n            # Need")], ['F_gains', 'ledger'])
mut('C06', 'AddCashFlow-nonincome-into-INC', [('sector.py', "        if is_income:\n            self.EquationBlock['INC'].AddTerm(term)", "        if is_income or term.startswith('-'):\n            self.EquationBlock['INC'].AddTerm(term)")], 'INC_gains')
mut('C06', 'AddCashFlow-overwrites-definition', [('sector.py', "            if rhs == '' or rhs == '0.0':\n                self.SetEquationRightHandSide(term, eqn)", "            if rhs == '' or rhs == '0.0' or len(rhs) < 3:\n                self.SetEquationRightHandSide(term, eqn)")], 'sector-ledgers', deductive_only=False)
ben('C06', 'AddTerm-rename', [('equation.py', "        for other in self.TermList:\n            if term.Term == other.Term and not other.IsBlob:\n                # Already exists; just add the constants together.\n                other.Constant += term.Constant\n                return",
     "        for other in self.TermList:\n            if other.IsBlob:\n                continue\n            if other.Term == term.Term:\n                other.Constant = other.Constant + term.Constant\n                return")])
ben('C06', 'AddCashFlow-log', [('sector.py', "        term = term.strip()\n        if len(term) == 0:\n            return\n        term_obj = Term(term)", "        term = term.strip()\n        if term == '':\n            return\n        term_obj = Term(term)")])

# ---- C12 ---------------------------------------------------------------------------------------------
mut('C12', 'str-sign-swapped', [('equation.py', "        if self.Constant == 1.0:\n            lead = '+'\n        elif self.Constant == -1:\n            lead = '-'", "        if self.Constant == 1.0:\n            lead = '-'\n        elif self.Constant == -1:\n            lead = '+'")], 'value')
mut('C12', 'str-drops-constant', [('equation.py', "            lead = '+' + str(self.Constant) + '*'", "            lead = '+'")], 'value')
mut('C12', 'str-zero-kept', [('equation.py', "        if self.Constant == 0.0:\n            return ''", "        if self.Constant == 0.0:\n            return '+' + self.Term")], ['value', 'zero_vanishes'])
mut('C12', 'rhs-keeps-leading-plus', [('equation.py', "        if out.startswith('+'):\n            out = out[1:]", "        if out.startswith('+') and len(self.TermList) > 3:\n            out = out[1:]")], 'rendering_in_list_order')
mut('C12', 'rhs-empty-sum-empty-text', [('equation.py', "        if out == '':\n            out = '0.0'", "        if out == '':\n            out = ''")], 'never_empty')
mut('C12', 'rhs-reversed', [('equation.py', "        out = [str(s) for s in self.TermList]\n        out = ''.join(out)", "        out = [str(s) for s in self.TermList]\n        out.reverse()\n        out = ''.join(out)")], 'rendering_in_list_order')
mut('C12', 'rhs-strips-all-plus', [('equation.py', "        if out.startswith('+'):\n            out = out[1:]", "        if out.startswith('+'):\n            out = out.replace('+', '')")], ['rendering_in_list_order', 'value_is_the_signed_sum'])
mut('C12', 'join-rewrites-argument', [('utils.py', "    terms = list(terms)\n    for i in range(0, len(terms)):", "    for i in range(0, len(terms)):")], ['argument_untouched', 'caller_list_unchanged', 'working_copy'])
mut('C12', 'join-strips-interior-plus', [('utils.py', "        terms[0] = terms[0][1:]", "        terms[0] = terms[0].replace('+', '')")], 'value_is_the_sum_of_the_pieces')
mut('C12', 'join-minus-becomes-plus', [('utils.py', "        if not term[0] in ('+', '-'):\n            term = '+' + term", "        if not term[0] in ('+',):\n            term = '+' + term.lstrip('-')")], ['normalised_so_far', 'value_is_the_sum_of_the_pieces'])
ben('C12', 'rhs-generator-join', [('equation.py', "        out = [str(s) for s in self.TermList]\n        out = ''.join(out)", "        pieces = [str(s) for s in self.TermList]\n        out = ''.join(pieces)")])
ben('C12', 'str-reordered-tests', [('equation.py', "        if self.Constant == 1.0:\n            lead = '+'\n        elif self.Constant == -1:\n            lead = '-'", "        if self.Constant == -1:\n            lead = '-'\n        elif self.Constant == 1.0:\n            lead = '+'")])

# ---- C13 ---------------------------------------------------------------------------------------------
mut('C13', 'replace-substring', [('utils.py', "            if toknum == NAME and tokval == target:  # replace NAME tokens\n                result.append((NAME, replacement))\n            else:\n                result.append((toknum, tokval))\n        return untokenize(result).decode('utf-8')\n    else:  # pragma: no cover   [Do my coverage on Python 3]\n        g = tokenize.generate_tokens(BytesIO(s.encode('utf-8')).readline)  # tokenize the string\n        for toknum, tokval, _, _, _ in g:\n            if toknum == NAME and tokval == target:",
     "            if toknum == NAME and tokval.startswith(target):  # replace NAME tokens\n                result.append((NAME, replacement))\n            else:\n                result.append((toknum, tokval))\n        return untokenize(result).decode('utf-8')\n    else:  # pragma: no cover   [Do my coverage on Python 3]\n        g = tokenize.generate_tokens(BytesIO(s.encode('utf-8')).readline)  # tokenize the string\n        for toknum, tokval, _, _, _ in g:\n            if toknum == NAME and tokval == target:")], 'element_wise')
mut('C13', 'lookup-any-token-type', [('utils.py', "            if toknum == NAME and tokval in lookup:  # replace NAME tokens\n                result.append((NAME, lookup[tokval]))\n            else:\n                result.append((toknum, tokval))\n        return untokenize(result).decode('utf-8')",
     "            if tokval in lookup:  # replace NAME tokens\n                result.append((NAME, lookup[tokval]))\n            else:\n                result.append((toknum, tokval))\n        return untokenize(result).decode('utf-8')")], 'element_wise')
mut('C13', 'lookup-chained', [('utils.py', "            if toknum == NAME and tokval in lookup:  # replace NAME tokens\n                result.append((NAME, lookup[tokval]))\n            else:\n                result.append((toknum, tokval))\n        return untokenize(result).decode('utf-8')",
     "            if toknum == NAME and tokval in lookup:  # replace NAME tokens\n                new = lookup[tokval]\n                if new in lookup:\n                    new = lookup[new]\n                result.append((NAME, new))\n            else:\n                result.append((toknum, tokval))\n        return untokenize(result).decode('utf-8')")], 'element_wise')
mut('C13', 'list-tokens-dedup', [('utils.py', "            if toknum == NAME:  # find NAME tokens\n                result.append(tokval)\n    else:", "            if toknum == NAME and tokval not in result:  # find NAME tokens\n                result.append(tokval)\n    else:")], ['one_entry_per_name_token', 'entries_in_order'])
mut('C13', 'equation-skips-first-term', [('equation.py', "        for t in self.TermList:\n            t.ReplaceTokensFromLookup(lookup)", "        for t in self.TermList[1:]:\n            t.ReplaceTokensFromLookup(lookup)")], ['renamed_so_far', 'every_term_renamed', 'ReplaceTokensFromLookup'])
mut('C13', 'term-blob-not-renamed', [('equation.py', "            if self.IsBlob:\n                self.Term = replace_token_from_lookup(self.Term, lookup)\n                return", "            if self.IsBlob:\n                return")], 'text_renamed')
ben('C13', 'list-tokens-rename-local', [('utils.py', "    result = []\n    if is_python_3:\n        g = tokenize.tokenize(BytesIO(s.encode('utf-8')).readline)  # tokenize the string\n        for toknum, tokval, _, _, _ in g:\n            if toknum == NAME:  # find NAME tokens\n                result.append(tokval)",
     "    result = []\n    if is_python_3:\n        g = tokenize.tokenize(BytesIO(s.encode('utf-8')).readline)  # tokenize the string\n        for toknum, tokval, _, _, _ in g:\n            if NAME == toknum:\n                result.append(tokval)")])

# ---- C07 ---------------------------------------------------------------------------------------------
EX = 'external.py'
mut('C07', 'cross-rate-inverted', [(EX, "self.AddVariable(code, desc,  '{0}/{1}'.format(local, foreign))", "self.AddVariable(code, desc,  '{1}/{0}'.format(local, foreign))")], 'defined_as_local_over_foreign')
mut('C07', 'receive-uses-target-over-source', [(EX, "cross_rate = self.Parent.GetCrossRate(source_currency, target_currency)", "cross_rate = self.Parent.GetCrossRate(target_currency, source_currency)")], ['receiver_term', 'currency_position_loses', 'values_after_currency_leg', 'currency_codes_are_plain'])
mut('C07', 'send-numeraire-sign', [(EX, "            '-' + variable_name + '*' + currency_variable_name)", "            '+' + variable_name + '*' + currency_variable_name)")], 'numeraire_position_loses')
mut('C07', 'receive-numeraire-uses-target-rate', [(EX, "                                 self.Parent['XR'].GetVariableName(source_currency))", "                                 self.Parent['XR'].GetVariableName(target_currency))")], 'numeraire_position_gains')
mut('C07', 'flow-not-converted', [('models.py', "                term = fx._ReceiveMoney(target_sector=target_sector, source_sector=source_sector,\n                                        variable_name=full_variable_name)", "                fx._ReceiveMoney(target_sector=target_sector, source_sector=source_sector,\n                                        variable_name=full_variable_name)\n                term = '+' + full_variable_name")], ['cross_zone_term', 'after_fx_legs'])
mut('C07', 'no-refusal', [('models.py', "                if self.ExternalSector is None:\n                    msg =", "                if False:\n                    msg =")], ['no_cross_flow', 'LogicError', 'unexpected', '_GenerateRegisteredCashFlows'])
mut('C07', 'source-not-debited', [('models.py', "            source_sector.AddCashFlow('-' + full_variable_name, eqn=None,", "            source_sector.AddCashFlow('+' + full_variable_name, eqn=None,")], 'source_pays')
ben('C07', 'send-rename-locals', [(EX, "        currency = source_sector.CurrencyZone.Currency\n        currency_variable_name = self.Parent['XR'].GetVariableName(currency)\n        self.EquationBlock['NET_' + currency].AddTerm('+' + variable_name)\n        self.EquationBlock['NET_NUMERAIRE'].AddTerm(\n            '-' + variable_name + '*' + currency_variable_name)",
    "        cur = source_sector.CurrencyZone.Currency\n        rate_name = self.Parent['XR'].GetVariableName(cur)\n        self.EquationBlock['NET_' + cur].AddTerm('+' + variable_name)\n        self.EquationBlock['NET_NUMERAIRE'].AddTerm(\n            '-' + variable_name + '*' + rate_name)")])
ben('C07', 'cross-rate-description-text', [(EX, "desc = 'Cross rate: {0} to buy 1 {1} (Standard quote convention: \"{2}/{3}.\")'.format(", "desc = 'Cross rate - {0} per {1} (quote \"{2}/{3}\")'.format(")])

# ---- C18 ---------------------------------------------------------------------------------------------
SD = 'sector_definitions.py'
mut('C18', 'expectations-household-literal-good', [(SD, "        self.SetEquationRightHandSide('DEM_' + consumption_good_name,\n", "        self.SetEquationRightHandSide('DEM_GOOD',\n")], ['consumption_out_of_expected_income', 'KeyError'])
mut('C18', 'expectations-household-drops-labour-name', [(SD, "                           alpha_fin=alpha_fin, consumption_good_name=consumption_good_name,\n                           labour_name=labour_name)", "                           alpha_fin=alpha_fin, consumption_good_name=consumption_good_name)")], 'labour_supply_named')
mut('C18', 'business-profit-literal-good', [(SD, "'SUP_' + output_name + ' - DEM_' + labour_input_name)", "'SUP_GOOD - DEM_' + labour_input_name)")], 'profit_uses_the_given_names')
mut('C18', 'zone-search-skips-first-country', [('models.py', "        out = []\n        for c in self.CountryList:\n            out.extend(c.GetSectors())", "        out = []\n        for c in self.CountryList[1:]:\n            out.extend(c.GetSectors())")], ['every_sector', 'CurrencyZone.GetSectors'])
mut('C18', 'zone-lookup-first-match', [('models.py', "                if out is not None:\n                    raise LogicError(\"\"\"Multiple sectors", "                if out is not None and False:\n                    raise LogicError(\"\"\"Multiple sectors")], ['the_only', 'inv_step'])
ben('C18', 'zone-sectors-list-concat', [('models.py', "        out = []\n        for c in self.CountryList:\n            out.extend(c.GetSectors())\n        return out", "        found = []\n        for c in self.CountryList:\n            found.extend(c.GetSectors())\n        return found")])

# ---- C04 / C08 ---------------------------------------------------------------------------------------
SEC = 'sector.py'
for _pid in ('C04', 'C08'):
    mut(_pid, 'demand-scan-stops-at-first-sector-without-demand', [(SEC, "                Logger('Variable {0} does not exist in {1}', priority=10,\n                       data_to_format=(var_name, s.FullCode))\n                continue", "                Logger('Variable {0} does not exist in {1}', priority=10,\n                       data_to_format=(var_name, s.FullCode))\n                break")], ['every_sector_of_the_zone_list_examined', 'included_iff', 'one_record_per', 'each_included_sector_has_its_term'])
    mut(_pid, 'demand-scan-country-only', [(SEC, "        for s in self.CurrencyZone.GetSectors():\n            if s.ID == self.ID:\n                continue\n            if self.ShareParent(s):", "        for s in self.Parent.GetSectors():\n            if s.ID == self.ID:\n                continue\n            if self.ShareParent(s):")], ['_GenerateTermsLowLevel', 'markets', 'permutations', 'scratch', 'country_objects_exist'], allow_undecided=(_pid == 'C08'))
mut('C04', 'demand-outflow-booked-as-inflow', [(SEC, "                s.AddCashFlow('-' + var_name, '', long_desc)", "                s.AddCashFlow('+' + var_name, '', long_desc)")], ['demander_is_booked', '_GenerateTermsLowLevel', 'inv_step'])
mut('C04', 'demand-long-name-everywhere', [(SEC, "            if self.ShareParent(s):\n                var_name = short_name\n            else:\n                var_name = long_name", "            if self.ShareParent(s):\n                var_name = short_name\n            else:\n                var_name = short_name")], ['each_included_sector_has_its_term', 'included_iff', 'markets', '_GenerateTermsLowLevel'])
mut('C08', 'business-labour-demand-created-late', [('sector_definitions.py', "        self.AddVariable('DEM_' + labour_input_name, 'Demand for labour', '')\n", "")], ['labour_demand_declared', 'permutations'])

# ---- C14 ---------------------------------------------------------------------------------------------
EP = 'equation_parser.py'
mut('C14', 'marker-on-raw-line', [(EP, "            if 'exogenous' in code_part.lower() or (len(code_part.strip()) == 0 and 'exogenous' in equation.lower()):", "            if 'exogenous' in equation.lower():")], ['marker_only', 'comment_text_cannot', 'blocks'])
mut('C14', 'comment-cut-at-last-hash', [(EP, "            pos = equation.find('#')\n            code_part = equation", "            pos = equation.rfind('#')\n            code_part = equation")], ['comment_text_cannot', 'blocks', 'ParseString'])
mut('C14', 'no-default-time-axis', [(EP, "        if not found_t:\n            self.Endogenous.append(('t', 'k'))\n            self.AllEquations['t'] = 'k'", "        if not found_t:\n            self.Endogenous.append(('t', 'k'))")], ['a_time_variable_exists'])
mut('C14', 'lag-spelling-t-dropped', [(EP, "                eqn = eqn.replace('(t-1)', '(k-1)')\n", "")], ['blocks'], deductive_only=False)
mut('C14', 'initial-condition-in-exogenous-section-misfiled', [(EP, "            if mode == 'endogenous':\n                # Remove initial conditions equations", "            if True:\n                # Remove initial conditions equations")], ['blocks'], deductive_only=False)
ben('C14', 'rename-code-part', [(EP, "            code_part = equation\n            if pos > -1:\n                code_part = equation[0:pos]\n            if 'exogenous' in code_part.lower() or (len(code_part.strip()) == 0 and 'exogenous' in equation.lower()):\n                mode = 'exogenous'\n                continue\n            # Remove comments (like this one!)\n            equation = code_part.strip()",
    "            code = equation\n            if pos > -1:\n                code = equation[0:pos]\n            if 'exogenous' in code.lower() or (len(code.strip()) == 0 and 'exogenous' in equation.lower()):\n                mode = 'exogenous'\n                continue\n            # Remove comments (like this one!)\n            equation = code.strip()")])

# ---- C03 ---------------------------------------------------------------------------------------------
mut('C03', 'alias-with-initial-condition-eliminated', [(EP, "            if rhs in self.AllEquations and var not in self.InitialConditions:", "            if rhs in self.AllEquations:")], ['only_a_bare_alias', 'differential'])
mut('C03', 'rebuild-drops-last-equation', [(EP, "        new_endo = [(x[0], self.AllEquations[x[0]]) for x in self.Endogenous]", "        new_endo = [(x[0], self.AllEquations[x[0]]) for x in self.Endogenous[:-1]]")], ['same_names_in_the_same_order'])
mut('C03', 'cleanup-strips-minus-too', [(EP, "        if s[0] == '+':\n            s = s[1:]", "        if s[0] in '+-':\n            s = s[1:]")], ['stripped_without_one_leading_plus'])
mut('C03', 'substring-substitution', [(EP, "self.AllEquations[other] = str(replace_token(self.AllEquations[other], var, rhs).replace(' ', ''))", "self.AllEquations[other] = str(self.AllEquations[other].replace(var, rhs).replace(' ', ''))")], ['differential'], deductive_only=False)
ben('C03', 'cleanup-startswith', [(EP, "        if s[0] == '+':\n            s = s[1:]", "        if s.startswith('+'):\n            s = s[1:]")])

# ---- C20 ---------------------------------------------------------------------------------------------
IMG = 'deprecated/iterative_machine_generator.py'
mut('C20', 'template-without-k', [(IMG, "        global k\n        k = float(self.STEP)\n", "")], ['step_counter_defined', 'modules'])
mut('C20', 'exogenous-missing-from-vector', [(IMG, "        for variable_name, value in self.Exogenous:\n            self.AllVariables.append(variable_name)\n            self.NonLagged.append(variable_name)", "        for variable_name, value in self.Exogenous:\n            self.NonLagged.append(variable_name)")], ['sizes', 'names', 'vector_lists_every_variable'])
mut('C20', 'lagged-in-table', [(IMG, "        for variable_name, name_of_var in self.Lagged:\n            self.AllVariables.append(variable_name)", "        for variable_name, name_of_var in self.Lagged:\n            self.AllVariables.append(variable_name)\n            self.NonLagged.append(variable_name)")], ['sizes', 'table_columns'])
mut('C20', 'csv-time-axis-last', [('base_solver.py', "            varlist = ['t', ] + varlist", "            varlist = varlist + ['t', ]")], ['time_axis_first'])
mut('C20', 'csv-drops-time-axis', [('base_solver.py', "            varlist.remove('t')\n            varlist = ['t', ] + varlist", "            varlist.remove('t')")], ['header_has_every_column_slot', 'no_variable_dropped'])
ben('C20', 'csv-rename-local', [('base_solver.py', "        out = '\\t'.join(varlist) + '\\n'\n        for i in range(0, len(getattr(self, varlist[0]))):", "        out = '\\t'.join(varlist) + '\\n'\n        for i in range(len(getattr(self, varlist[0]))):")])

# ---- C09 ---------------------------------------------------------------------------------------------
mut('C09', 'parameter-always-short-form', [('utils.py', "    if float(txt) != float(value):\n        txt = repr(float(value))\n    return txt", "    return txt")], ['reads_back_as_the_value'])
mut('C09', 'consumption-out-of-pretax-income', [(SD, "                         'AlphaIncome * AfterTax + AlphaFin * LAG_F')", "                         'AlphaIncome * INC + AlphaFin * LAG_F')")], ['consumption_function'])
mut('C09', 'tax-on-after-tax-income', [(SD, "                term = '%s * %s' % (tax_name_used, s.GetVariableName('INC'))", "                term = '%s * %s' % (tax_name_used, s.GetVariableName('AfterTax'))")], ['textbook'], deductive_only=False)
ben('C09', 'format-helper-compare-floats', [('utils.py', "    if float(txt) != float(value):", "    if not (float(txt) == float(value)):")])

# ---- C04 (asset markets) -----------------------------------------------------------------------------
mut('C04', 'money-scan-stops-at-first-non-holder', [(SD, "            if not s.HasF:\n                continue\n            if s.Code == self.IssuerShortCode:\n                Logger('Found Issuer', priority=3)", "            if not s.HasF:\n                break\n            if s.Code == self.IssuerShortCode:\n                Logger('Found Issuer', priority=3)")], ['every_sector_of_the_zone_list_examined', 'every_asset_holding_sector', 'one_record_per'])
mut('C04', 'deposit-holder-not-paid', [(SD, "            s.AddCashFlow('+INT' + self.Code,\n                          '{0}*{1}'.format(self.GetVariableName('LAG_r'), s.GetVariableName('LAG_' + dem_name)),\n                          'Interest received on ' + self.LongName)\n", "")], ['every_holder_in_the_total_is_paid_interest'])
mut('C04', 'residual-weight-last-only', [(SEC, "            residual_weight += ' - ' + weight", "            residual_weight = '1.0 - ' + weight")], ['residual_weight_is_one_minus'])
mut('C04', 'term-added-with-wrong-sign', [(SEC, "        term = Term(term)\n        Logger('Adding term {0} to Equation {1} in Sector {2} [ID={3}]'", "        term = Term('-(' + term + ')')\n        Logger('Adding term {0} to Equation {1} in Sector {2} [ID={3}]'")], ['value_added'])
