"""
Mutation / benign-edit self-test of the checks (developer command, not a registered check).

  python3-vt selftest/run.py [PID ...]

Every entry of corpus.MUTANTS is applied to a scratch copy of /repo/sfc_models (textual replacement,
must match exactly once), the property's quick check is run with PYVC_REPO pointing at the copy and
must exit 1 naming the expected obligation; every entry of corpus.BENIGN must leave the check at
exit 0.  The scratch copy lives under /tmp and is removed after each entry.
"""
import json, os, shutil, subprocess, sys, tempfile, time
from concurrent.futures import ThreadPoolExecutor
HERE = os.path.dirname(os.path.abspath(__file__))
VERIF = os.path.dirname(HERE)
sys.path.insert(0, HERE)
import corpus


def run_entry(e, kind):
    pid = e['pid']
    tmp = tempfile.mkdtemp(prefix='pyvc_mut_')
    try:
        shutil.copytree('/repo/sfc_models', os.path.join(tmp, 'sfc_models'), ignore=shutil.ignore_patterns('__pycache__'))
        for (rel, old, new) in e['edits']:
            p = os.path.join(tmp, 'sfc_models', rel)
            s = open(p).read()
            if s.count(old) != 1:
                return (e, kind, 'SETUP', 'pattern occurs %d times in %s' % (s.count(old), rel))
            open(p, 'w').write(s.replace(old, new))
        env = dict(os.environ, PYVC_REPO=tmp, PYVC_UNDECIDED_EXIT='2')
        t0 = time.time()
        p = subprocess.run([os.path.join(VERIF, 'check'), pid, '--tier', 'quick', '--no-evidence'] + (['--no-bounded'] if e.get('deductive_only', True) else []),
                           stdout=subprocess.PIPE, stderr=subprocess.STDOUT, universal_newlines=True, env=env, cwd=VERIF)
        out = p.stdout
        dt = time.time() - t0
        if kind == 'mutant':
            want = e.get('expect', '')
            hit = [l for l in out.split('\n') if l.startswith('VIOLATION')]
            wants = want if isinstance(want, (list, tuple)) else [want]
            ok = (p.returncode == 1 and any(slugmatch(w, l) for l in hit for w in wants)) or (e.get('allow_undecided') and p.returncode == 2)
            return (e, kind, 'CAUGHT' if ok else 'MISSED', 'exit=%d %.0fs %s' % (p.returncode, dt, '; '.join(l.split('replay=')[-1] for l in hit)[:300] or out[-300:]))
        ok = p.returncode == 0
        return (e, kind, 'QUIET' if ok else 'FALSE-ALARM', 'exit=%d %.0fs %s' % (p.returncode, dt, '' if ok else out[-600:]))
    finally:
        shutil.rmtree(tmp, ignore_errors=True)


def slugmatch(want, line):
    import re
    w = re.sub(r'[^A-Za-z0-9_.\[\]=-]+', '_', want)
    return w in line


def main():
    pids = sys.argv[1:]
    jobs = [(e, 'mutant') for e in corpus.MUTANTS if not pids or e['pid'] in pids] + \
           [(e, 'benign') for e in corpus.BENIGN if not pids or e['pid'] in pids]
    bad = 0
    with ThreadPoolExecutor(max_workers=4) as ex:
        for (e, kind, verdict, detail) in ex.map(lambda j: run_entry(*j), jobs):
            print('%-11s %-7s %-4s %-40s %s' % (verdict, kind, e['pid'], e['name'], detail))
            if verdict in ('MISSED', 'FALSE-ALARM', 'SETUP'):
                bad += 1
    print('%d entries, %d problems' % (len(jobs), bad))
    return 1 if bad else 0


if __name__ == '__main__':
    sys.exit(main())
