"""
C01 - Every generated model is stock-flow consistent in each currency.
"""
from pyvc.types import *
from pyvc.spec import fn, cls, RaisesSpec, LoopSpec, specfn
from pyvc.prop import Property
import z3
from . import common, lib, den, equation_contracts, sector_contracts  # noqa
from . import C06 as _c06, C07 as _c07, C04 as _c04  # noqa

P = Property('C01', 'other',
             'Contracts on the real AST of the booking functions, over the abstract view Den(F) of the ledger equations: Sector.AddCashFlow adds exactly the '
             'signed term to F (C06); Model._GenerateRegisteredCashFlows books -x on the source and +x (same zone) or +x*cross rate (other zone, through '
             '_SendMoney / _ReceiveMoney whose FX positions absorb the difference) on the target (C07); Market._GenerateTermsLowLevel books the outflow '
             '-DEM on every demander it aggregates (C04); and the zone lemma: if construction leaves every ledger at LAG_F and every booking step adds '
             'entries that sum to zero, the zone total stays at the sum of the lagged stocks (induction over the steps). TaxFlow, dividend, interest, '
             'remittance and supplier inflows are not under contract: bounded on solved models, where two topologies are known to fail (F8, F22).',
             'contract-based deductive verification: VCs generated from the real AST (pyvc), z3/cvc5; bounded model checks',
             design_ref='DESIGN.md section 6, C01')
P.trust('contracts and assumptions of C06, C07, C04 (see there)', 'T-STA: the value of a flow term text is the value of the flow variable with its sign')
P.not_decided.append('TaxFlow._GenerateEquations, FixedMarginBusiness dividends, DepositMarket interest, CentralBank remittance, Market._GenerateMultiSupply supplier inflow, '
                     'gold purchases: both sides of each flow are booked - bounded on solved models (dyn/C01.py); open findings F8 and F22 live in this part')
P.replay_script = 'dyn/C01.py'

for _src, _pat in ((_c06.P, 'AddCashFlow'), (_c07.P, '_GenerateRegisteredCashFlows'), (_c07.P, '_SendMoney'), (_c07.P, '_ReceiveMoney'), (_c04.P, '_GenerateTermsLowLevel')):
    for _s in _src.fns:
        if _pat in _s.name:
            P.verify(_s)
P.assume(*(_c07.P.assumptions + _c04.P.assumptions))


def _zone_lemma():
    """Z_n = sum over the sectors of a zone of (Den(F_s) - V(LAG_F_s)) + FX position, after n booking steps; each step k adds the entries e(k, s)
    to the ledgers it touches (contracts of the booking functions) and the entries of one step sum to zero under the links the step itself
    establishes (paired flow: -x and +x; cross-zone: -x + NET; market: -DEM_s for each demander and +SUP for the suppliers with SUP = DEM = sum DEM_s)"""
    Z = z3.Function('Z_after', z3.IntSort(), z3.RealSort())
    step = z3.Function('step_total', z3.IntSort(), z3.RealSort())
    n = z3.Int('n')
    base = ('base', [Z(0) == 0], Z(0) == 0)
    stp = ('step', [n >= 0, Z(n) == 0, Z(n + 1) == Z(n) + step(n), step(n) == 0], Z(n + 1) == 0)
    x, cross, xs, xt = z3.Reals('x cross xs xt')
    pair_same = ('paired_flow_same_zone', [], (-x) + (+x) == 0)
    # cross-zone pair: source zone: -x (sector) + x (NET_src) ; target zone: +x*cross (sector) - x*cross (NET_tgt)
    pair_cross = ('paired_flow_cross_zone', [], z3.And((-x) + x == 0, (x * cross) + (-(x * cross)) == 0))
    d1, d2, sup = z3.Reals('d1 d2 sup')
    market = ('market_step_under_its_links', [sup == d1 + d2], (-d1) + (-d2) + sup == 0)
    return [base, stp, pair_same, pair_cross, market]


P.lemma('zone_ledger_stays_balanced', _zone_lemma, 'induction over booking steps + the per-step cancellations (real arithmetic)')
P.bound('ledger', 'dyn/C01.py', 'ledger', 'random economies of every catalogue shape, solved: 30 (quick) / 600 (thorough)',
        'per-currency identity on the solved series: changes in F of all sectors of a zone + FX position = 0 for k >= 2')
P.bound('catalogue', 'dyn/C01.py', 'catalogue', 'two fixed topologies outside the random generator (two tax flows in a zone; two dividend payers)',
        'the same identity on the topologies of the known findings F22 and F8')
