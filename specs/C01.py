"""
C01 - Every generated model is stock-flow consistent in each currency.
"""
from pyvc.types import *
from pyvc.spec import fn, cls, RaisesSpec, LoopSpec, specfn
from pyvc.prop import Property
import z3
from . import common, lib, den, equation_contracts, sector_contracts  # noqa
from . import C06 as _c06, C07 as _c07, C04 as _c04  # noqa

P = Property('C01', 'other',
             'Contracts on the real AST of the booking functions, over the abstract view Den(F) of the ledger equations: Sector.AddCashFlow adds exactly the '
             'signed term to F (C06); Model._GenerateRegisteredCashFlows books -x on the source and +x (same zone) or +x*cross rate (other zone, through '
             '_SendMoney / _ReceiveMoney whose FX positions absorb the difference) on the target (C07); Market._GenerateTermsLowLevel books the outflow '
             '-DEM on every demander it aggregates (C04); TaxFlow._GenerateEquations books -T on exactly the taxable sectors of the zone, one term each; and the zone lemma: if construction leaves every ledger at LAG_F and every booking step adds '
             'entries that sum to zero, the zone total stays at the sum of the lagged stocks (induction over the steps). That the expression credited to the tax '
             'receiver is what the payers were debited, dividend, remittance and supplier inflows are not under contract: bounded on solved models, where one topology is known to fail (F22: two tax flows in a zone; F8, two dividend payers, was repaired).',
             'contract-based deductive verification: VCs generated from the real AST (pyvc), z3/cvc5; bounded model checks',
             design_ref='DESIGN.md section 6, C01')
P.trust('contracts and assumptions of C06, C07, C04 (see there)', 'T-STA: the value of a flow term text is the value of the flow variable with its sign')
P.not_decided.append('TaxFlow._GenerateEquations, FixedMarginBusiness dividends, DepositMarket interest, CentralBank remittance, Market._GenerateMultiSupply supplier inflow, '
                     'gold purchases: both sides of each flow are booked - bounded on solved models (dyn/C01.py); the open finding F22 lives in this part')
P.replay_script = 'dyn/C01.py'

for _src, _pat in ((_c06.P, 'AddCashFlow'), (_c07.P, '_GenerateRegisteredCashFlows'), (_c07.P, '_SendMoney'), (_c07.P, '_ReceiveMoney'), (_c04.P, '_GenerateTermsLowLevel')):
    for _s in _src.fns:
        if _pat in _s.name:
            P.verify(_s)
P.assume(*(_c07.P.assumptions + _c04.P.assumptions))


def _zone_lemma():
    """Z_n = sum over the sectors of a zone of (Den(F_s) - V(LAG_F_s)) + FX position, after n booking steps; each step k adds the entries e(k, s)
    to the ledgers it touches (contracts of the booking functions) and the entries of one step sum to zero under the links the step itself
    establishes (paired flow: -x and +x; cross-zone: -x + NET; market: -DEM_s for each demander and +SUP for the suppliers with SUP = DEM = sum DEM_s)"""
    Z = z3.Function('Z_after', z3.IntSort(), z3.RealSort())
    step = z3.Function('step_total', z3.IntSort(), z3.RealSort())
    n = z3.Int('n')
    base = ('base', [Z(0) == 0], Z(0) == 0)
    stp = ('step', [n >= 0, Z(n) == 0, Z(n + 1) == Z(n) + step(n), step(n) == 0], Z(n + 1) == 0)
    x, cross, xs, xt = z3.Reals('x cross xs xt')
    pair_same = ('paired_flow_same_zone', [], (-x) + (+x) == 0)
    # cross-zone pair: source zone: -x (sector) + x (NET_src) ; target zone: +x*cross (sector) - x*cross (NET_tgt)
    pair_cross = ('paired_flow_cross_zone', [], z3.And((-x) + x == 0, (x * cross) + (-(x * cross)) == 0))
    d1, d2, sup = z3.Reals('d1 d2 sup')
    market = ('market_step_under_its_links', [sup == d1 + d2], (-d1) + (-d2) + sup == 0)
    return [base, stp, pair_same, pair_cross, market]


P.lemma('zone_ledger_stays_balanced', _zone_lemma, 'induction over booking steps + the per-step cancellations (real arithmetic)')
P.bound('ledger', 'dyn/C01.py', 'ledger', 'random economies of every catalogue shape, solved: 30 (quick) / 600 (thorough)',
        'per-currency identity on the solved series: changes in F of all sectors of a zone + FX position = 0 for k >= 2')
P.bound('catalogue', 'dyn/C01.py', 'catalogue', 'two fixed topologies outside the random generator (two tax flows in a zone; two dividend payers)',
        'the same identity on the topologies of the findings F22 (open) and F8 (repaired)')

# ---- TaxFlow._GenerateEquations: every taxable sector of the zone is booked -T, the tax flow collects the terms, the government is credited --------
from . import C18 as _c18  # noqa  (CurrencyZone.GetSectors / LookupSector, SetEquationRightHandSide)
from . import C12 as _c12  # noqa  (create_equation_from_terms)
cls('TaxFlow', fields=dict(TaxingSector=STR, TaxRate=FLOAT))

ZL = 'ZL'
TAXED = '(ZL[%s].ID != self.ID and ZL[%s].IsTaxable)'
PRIVATE_T = 'list_same_as(HP, ZL) and list_same_as(HP, terms) and list_same_as(HP, pos_)'
KEEP_T = '_assume(%r)' % PRIVATE_T
KEEP_X = '_assume(%r)' % PRIVATE_T.replace('HP', '_loop_exit')
P.verify(fn(
    'sfc_models.sector_definitions.TaxFlow._GenerateEquations',
    args=dict(self=Ref('TaxFlow')),
    requires=[('zone_objects_exist', 'all(allocated(self.CurrencyZone.CountryList[cc]) and allocated(self.CurrencyZone.CountryList[cc].SectorList) for cc in range(0, len(self.CurrencyZone.CountryList)))')],
    hints={'strip_rich': True, ('empty_list', 'terms'): STR, ('empty_list', 'pos_'): INT},
    ghost_after=[('terms = []', 'pos_ = []'),
                 ("re:s\\.AddCashFlow\\('-T', term, 'Taxes paid\\.', is_income=False\\)",
                  "_assert(%r, 'taxpayer_is_booked_the_outflow')" % "Den(s.EquationBlock.Equations['F']) == at(HP, Den(s.EquationBlock.Equations['F'])) + V(nospace('-T'))" + '\n' + KEEP_T + '\n_snapshot("HP")'),
                 ('terms.append(term)', 'pos_[len(pos_) - 1] = len(terms) - 1\n_snapshot("HP")'),
                 # after the loop: the private lists are as the loop left them (no callee can reach them)
                 ("re:self\\.SetEquationRightHandSide\\('T', utils\\.create_equation_from_terms\\(terms\\)\\)", KEEP_X),
                 ("re:tax_fullname = self\\.GetVariableName\\('T'\\)", KEEP_X),
                 ("re:gov = self\\.CurrencyZone\\.LookupSector\\(self\\.TaxingSector\\)", KEEP_X),
                 ("re:gov\\.SetEquationRightHandSide\\('T', tax_fullname\\)", KEEP_X),
                 ("re:gov\\.AddCashFlow\\('T', tax_fullname, 'Tax revenue received\\.'\\)", KEEP_X),
                 ("re:tax_name_used = s\\.GetVariableName\\('TaxRate'\\)", KEEP_T + '\n_snapshot("HP")'),
                 ("re:term = '%s \\* %s' % \\(tax_name_used, s\\.GetVariableName\\('INC'\\)\\)", KEEP_T + '\n_snapshot("HP")')],
    loops={0: LoopSpec(header='for s in self.CurrencyZone.GetSectors()', index='i', ghost={'ZL': '_it'}, body_ghost='pos_.append(0 - 1)\n_snapshot("HP")',
                       modifies=['len.*', 'el.*', 'dh.*', 'dv.*', 'dk', 'tyof', 'f.Equation.*', 'f.Term.*'], invariants=[
        ('bounds', '0 <= i and i <= len(ZL)'),
        ('scratch', 'fresh(ZL) and fresh(terms) and fresh(pos_)'),
        ('one_record_per_sector_examined', 'len(pos_) == i'),
        ('zone_objects_exist', 'all(allocated(self.CurrencyZone.CountryList[cc]) and allocated(self.CurrencyZone.CountryList[cc].SectorList) for cc in range(0, len(self.CurrencyZone.CountryList)))'),
        ('sector_identities_kept', "heap_unchanged_except('tyof', 'len.*', 'el.*', 'dh.*', 'dv.*', 'dk', 'f.Equation.*', 'f.Term.*')"),
        ('a_term_for_exactly_the_taxable_sectors', 'all(iff(pos_[j] >= 0, %s) and (pos_[j] >= 0 or pos_[j] == 0 - 1) and implies(pos_[j] >= 0, pos_[j] < len(terms)) for j in range(0, i))' % (TAXED % ('j', 'j'))),
        ('terms_in_list_order', 'all(implies(pos_[j1] >= 0 and pos_[j2] >= 0 and j1 < j2, pos_[j1] < pos_[j2]) for j1 in range(0, i) for j2 in range(0, i))'),
    ])},
    ensures=[('every_sector_of_the_zone_list_examined', 'len(pos_) == len(ZL)'),
             ('a_term_for_exactly_the_taxable_sectors', 'all(iff(pos_[j] >= 0, %s) for j in range(0, len(ZL)))' % (TAXED % ('j', 'j')))],
    raises=[RaisesSpec('SyntaxError', when='True'), RaisesSpec('LogicError', when='True'), RaisesSpec('NotImplementedError', when='True'),
            RaisesSpec('ValueError', when='True'), RaisesSpec('IndexError', when='True'), RaisesSpec('KeyError', when='True')],
))
