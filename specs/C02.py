"""
C02 - Whatever the solver returns satisfies the submitted equations  (function: EquationSolver._SolveStep)
"""
from pyvc.types import *
from pyvc.spec import fn, cls, RaisesSpec, LoopSpec, specfn
from pyvc.prop import Property
import z3
from . import common, lib, solver_model, solvestep as S  # noqa

P = Property('C02', 'proof', 'TBD', 'contract-based deductive verification: VCs generated from the real AST (pyvc), z3/cvc5',
             design_ref='DESIGN.md section 6, C02')

INTACT = ('periods_already_solved_intact', 'lists_unchanged() and dicts_unchanged()')

SOLVESTEP = P.verify(fn(
    'sfc_models.equation_solver.EquationSolver._SolveStep',
    args=dict(self=Ref('EquationSolver'), step=INT, is_trace_step=BOOL),
    float_mode='xreal',
    hints=S.HINTS,
    requires=[('not_tracing', 'not is_trace_step'), ('cap_nonneg', 'self.MaxIterations >= 0'),
              ('solver_ready', S.READY), ('names_and_series_distinct', S.DISTINCT),
              ('tolerance_parameter_finite', 'is_none(self.ParameterErrorTolerance) or isfinite(get(self.ParameterErrorTolerance))')],
    ghost_after=[('err_toler = float(self.Parser.Err_Tolerance)', "_assume('isfinite(err_toler)')")] + S.GHOST,
    loops=S.LOOPS,
    ensures=[
        ('simultaneous_and_lagged_series_get_one_point', S.KEPT),
        ('every_decorative_series_gets_one_finite_point', S.allj(S.DEC, 'len(self.TimeSeries[%s[j][0]]) == step + 1 and isfinite(self.TimeSeries[%s[j][0]][step])' % (S.DEC, S.DEC))),
        ('reported_simultaneous_values_are_finite', S.allj(S.ENDO, 'isfinite(self.TimeSeries[%s[j][0]][step])' % S.ENDO)),
        ('lagged_equals_source_of_previous_period', S.allj(S.LAG, 'same(self.TimeSeries[%s[j][0]][step], old(self.TimeSeries[%s[j][1]][step - 1]))' % (S.LAG, S.LAG))),
        ('earlier_periods_untouched', 'old_lists_only_extended() and lists_unchanged_except_series_of(self) and dicts_unchanged()'),
        ('equations_untouched', "heap_unchanged_except('tyof', 'len.*', 'el.*', 'dh.*', 'dv.*', 'dk')"),
    ],
    raises=[RaisesSpec('ValueError', when='True', ensures=[INTACT]),        # includes ConvergenceError
            RaisesSpec('NameError', when='True', ensures=[INTACT]),
            RaisesSpec('OtherError', when='True', ensures=[INTACT])],
    only_raises=True,
))
