"""
C02 - Whatever the solver returns satisfies the submitted equations  (function: EquationSolver._SolveStep)
"""
from pyvc.types import *
from pyvc.spec import fn, cls, RaisesSpec, LoopSpec, specfn
from pyvc.prop import Property
import z3
from . import common, lib, solver_model, solvestep as S  # noqa

P = Property('C02', 'proof',
             'Contract on the real AST of EquationSolver._SolveStep in extended-real arithmetic (inf / nan tags, overflow at DBL_MAX, eval as an '
             'uninterpreted function that may return any extended real or raise): a period is appended only after at least one sweep whose '
             'accumulated scaled error is a finite number <= tolerance, which forces every reported simultaneous value to be finite; lagged '
             'values equal the source one period earlier; decorative values are finite; a NaN / inf error never ends the iteration as converged. '
             'All 15 loops carry invariants; z3/cvc5 discharge every obligation for all systems, list lengths and iteration counts.', 'contract-based deductive verification: VCs generated from the real AST (pyvc), z3/cvc5',
             design_ref='DESIGN.md section 6, C02')

SOLVESTEP = P.verify(S.solvestep_contract())

P.bound('residuals', 'dyn/C02.py', 'residual',
        '19 hand-made + 40 (quick) / 1500 (thorough) random linear systems x reduction on/off x caps {None, 30}',
        'the residual clause itself (every simultaneous equation holds at the reported values up to K*tol*scale; decorative exactly) '
        'and a native cross-check of the contract of _SolveStep')
P.replay_script = 'dyn/C02.py'
P.trust('T-EVAL: eval(text, globals, env) is a function of text and env (keys + values) that returns a number (any extended real) or raises '
        'ZeroDivisionError / ValueError / OverflowError / NameError / another error; functions registered with AddFunction are opaque entries of env',
        'float model: extended reals with overflow saturation at DBL_MAX, no rounding',
        'the tolerance parsed from Err_Tolerance is a finite number (ghost assumption at the float() call)',
        'preconditions solver_ready / names_and_series_distinct are established by SetInitialConditions and the previous period (C10) and by the parser for well-formed blocks')
P.not_decided.append('the size of the residual of a simultaneous equation at the reported point (needs the Lipschitz data of the user\'s system) and '
                     'exactness of decorative values w.r.t. the final environment (needs locality of eval in the names of the text): bounded, dyn/C02.py residual')
P.not_decided.append('that every decorative variable is computed (termination of the retry loop with all variables done) - only "each computed one is appended exactly once" is discharged')
