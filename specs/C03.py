"""
C03 - Equation reduction never changes any solution value.
"""
from pyvc.types import *
from pyvc.spec import fn, cls, RaisesSpec, LoopSpec, specfn
from pyvc.prop import Property
import z3
from . import common, lib  # noqa
from . import C13 as _c13  # noqa  (replace_token: whole NAME tokens only; list_tokens)

P = Property('C03', 'other',
             'Contracts on the real AST of EquationParser.CleanupRightHandSide, FindExactMatches, RebuildEquations and MoveDecorative (what is set aside is referenced by no token list, its own included; nothing is lost or duplicated): substitution rewrites right-hand sides '
             'only (through replace_token, whole NAME tokens: C13), the set of variables and the order and names of the simultaneous equations are kept '
             '(nothing lost, duplicated or renamed), each simultaneous equation is the current text of its variable, initial conditions / lagged / '
             'exogenous / decorative lists are untouched, and a variable is only ever replaced by its target when its equation is exactly that one name '
             'and it carries no initial condition of its own. That the solution values (incl. k = 0) are unchanged is bounded: reduction on vs off.',
             'contract-based deductive verification: VCs generated from the real AST (pyvc), z3/cvc5; bounded differential',
             design_ref='DESIGN.md section 6, C03')
P.trust('contracts of replace_token and list_tokens (verified in C13)', 'T-EVAL: replacing the whole-name tokens of a variable that equals another variable by that variable preserves the solutions')
P.not_decided.append('the time-zero passes of SetInitialConditions and value-level equality of the '
                     'two runs: bounded, dyn/C03.py')
P.replay_script = 'dyn/C03.py'

CLEAN = P.verify(fn(
    'sfc_models.equation_parser.EquationParser.CleanupRightHandSide',
    args=dict(s=STR), returns=STR,
    ensures=[('stripped_without_one_leading_plus', "result == (s.strip()[1:] if s.strip().startswith('+') else s.strip())"),
             ('nothing_written', 'heap_unchanged_except()')],
))

AE = 'self.AllEquations'
P.verify(fn(
    'sfc_models.equation_parser.EquationParser.RebuildEquations',
    args=dict(self=Ref('EquationParser')),
    ensures=[('same_names_in_the_same_order', 'len(self.Endogenous) == old(len(self.Endogenous)) and all(self.Endogenous[j][0] == old(self.Endogenous[j][0]) for j in range(0, len(self.Endogenous)))'),
             ('each_equation_is_the_current_text', 'all(self.Endogenous[j][1] == %s[self.Endogenous[j][0]] for j in range(0, len(self.Endogenous)))' % AE),
             ('nothing_else_written', "heap_unchanged_except('f.EquationParser.Endogenous', 'len.*', 'el.*', 'tyof') and lists_unchanged() and dicts_unchanged()")],
    raises=[RaisesSpec('KeyError', when='any(not has(%s, self.Endogenous[j][0]) for j in range(0, len(self.Endogenous)))' % AE, iff=True)],
))

KEYS_KEPT = 'all(has(%s, s) == old(has(%s, s)) for s in strings())' % (AE, AE)
OTHERS = [('initial_conditions_untouched', 'self.InitialConditions is old(self.InitialConditions) and self.AllEquations is old(self.AllEquations) and '
                                           'all(has(self.InitialConditions, s) == old(has(self.InitialConditions, s)) and '
                                           'implies(has(self.InitialConditions, s), self.InitialConditions[s] == old(self.InitialConditions[s])) for s in strings())'),
          ('simultaneous_list_untouched', 'list_same_as(H0, self.Endogenous)'),
          ('other_lists_untouched', 'list_same_as(H0, self.Lagged) and list_same_as(H0, self.Exogenous) and list_same_as(H0, self.Decoration)')]
FRAME = "heap_unchanged_except('dh.*', 'dv.*', 'dk', 'len.*', 'el.*', 'tyof')"
P.verify(fn(
    'sfc_models.equation_parser.EquationParser.FindExactMatches',
    args=dict(self=Ref('EquationParser')),
    requires=[('separate_tables', 'self.AllEquations is not self.InitialConditions')],
    loops={0: LoopSpec(header='for (var, eqn) in self.Endogenous', index='a', ghost={'H0': 'heap_now()'}, modifies=['dh.*', 'dv.*', 'dk', 'len.*', 'el.*', 'tyof'], invariants=[
               ('bounds', '0 <= a and a <= len(_it)'),
               ('no_variable_lost_or_added', KEYS_KEPT),
               ('only_texts_and_token_lists_written', FRAME),
               ] + OTHERS),
           1: LoopSpec(header='for other in self.AllEquations', index='b', modifies=['dh.*', 'dv.*', 'dk', 'len.*', 'el.*', 'tyof'], invariants=[
               ('bounds', '0 <= b and b <= len(_it)'),
               ('keys_being_visited_are_variables', 'all(has(%s, _it[j]) for j in range(0, len(_it)))' % AE),
               ('no_variable_lost_or_added', KEYS_KEPT),
               ('only_texts_and_token_lists_written', FRAME),
               ] + OTHERS)},
    ghost_after=[("if var == self.CleanupRightHandSide(self.AllEquations[rhs]):",
                  "_assert(%r, 'only_a_bare_alias_without_its_own_initial_condition_is_replaced')" %
                  "has(%s, rhs) and not has(self.InitialConditions, var) and rhs == (eqn.strip()[1:] if eqn.strip().startswith('+') else eqn.strip())" % AE)],
    ensures=[('no_variable_lost_or_added', KEYS_KEPT),
             ('same_names_in_the_same_order', 'len(self.Endogenous) == old(len(self.Endogenous)) and all(self.Endogenous[j][0] == old(self.Endogenous[j][0]) for j in range(0, len(self.Endogenous)))'),
             ('each_equation_is_the_current_text', 'all(self.Endogenous[j][1] == %s[self.Endogenous[j][0]] for j in range(0, len(self.Endogenous)))' % AE),
             ('initial_conditions_untouched', 'all(has(self.InitialConditions, s) == old(has(self.InitialConditions, s)) and '
                                              'implies(has(self.InitialConditions, s), self.InitialConditions[s] == old(self.InitialConditions[s])) for s in strings())')],
    raises=[RaisesSpec('ValueError', when='True'), RaisesSpec('TokenError', when='True'), RaisesSpec('KeyError', when='True')],
))
P.bound('differential', 'dyn/C03.py', 'differential', 'random contracting affine systems with alias chains, aliases of constants / exogenous / lagged variables, decorative chains and '
        'trees, initial conditions anywhere; reduction on vs off: 300 (quick) / 6000 (thorough)', 'every series identical (1e-6) with reduction on and off, incl. k = 0')

# ---- MoveDecorative ---------------------------------------------------------------------------------------------
TOK = 'self.Tokens'
REFERENCED = 'any(has(%s, s) and any(%s[s][q] == %%s for q in range(0, len(%s[s]))) for s in strings())' % (TOK, TOK, TOK)
P.verify(fn(
    'sfc_models.equation_parser.EquationParser.MoveDecorative',
    args=dict(self=Ref('EquationParser')), returns=INT,
    requires=[('separate_lists', 'self.Endogenous is not self.Decoration')],
    loops={0: LoopSpec(header='for (var, old_eqn) in working_list', index='a', ghost={'H0': 'heap_now()'}, modifies=['len.TS_SE', 'el.TS_SE', 'tyof'], invariants=[
               ('bounds', '0 <= a and a <= len(_it)'),
               ('working_copy', 'fresh(_it) and _it is not self.Endogenous and _it is not self.Decoration and self.Endogenous is old(self.Endogenous) and self.Decoration is old(self.Decoration)'),
               ('nothing_lost_or_duplicated', 'len(self.Endogenous) + len(self.Decoration) == old(len(self.Endogenous)) + old(len(self.Decoration)) and '
                                              'num_found == len(self.Decoration) - old(len(self.Decoration)) and num_found >= 0'),
               ('earlier_decorations_kept', 'all(same(self.Decoration[j], old(self.Decoration[j])) for j in range(0, old(len(self.Decoration))))'),
               ('moved_variables_are_referenced_nowhere', 'all(not (%s) for j in range(old(len(self.Decoration)), len(self.Decoration)))' % (REFERENCED % 'self.Decoration[j][0]')),
               ('only_the_two_lists_written', "heap_unchanged_except('len.TS_SE', 'el.TS_SE', 'tyof')"),
               ('token_table_untouched', 'dicts_unchanged()')]),
           1: LoopSpec(header='for other_var in self.Tokens', index='b', modifies=[], invariants=[
               ('bounds', '0 <= b and b <= len(_it)'),
               ('not_found_so_far', 'implies(not found, all(not any(%s[_it[m]][q] == var for q in range(0, len(%s[_it[m]]))) for m in range(0, b)))' % (TOK, TOK)),
               ('found_means_referenced', 'implies(found, %s)' % (REFERENCED % 'var'))])},
    ensures=[('nothing_lost_or_duplicated', 'len(self.Endogenous) + len(self.Decoration) == old(len(self.Endogenous)) + old(len(self.Decoration))'),
             ('returns_the_number_moved', 'result == len(self.Decoration) - old(len(self.Decoration)) and result >= 0'),
             ('earlier_decorations_kept', 'all(same(self.Decoration[j], old(self.Decoration[j])) for j in range(0, old(len(self.Decoration))))'),
             ('moved_variables_are_referenced_nowhere', 'all(not (%s) for j in range(old(len(self.Decoration)), len(self.Decoration)))' % (REFERENCED % 'self.Decoration[j][0]'))],
    raises=[RaisesSpec('ValueError', when='True'), RaisesSpec('KeyError', when='True')],
))
