"""
C04 - Markets clear and supply is fully allocated among suppliers.
"""
from pyvc.types import *
from pyvc.spec import fn, cls, RaisesSpec, LoopSpec, specfn
from pyvc.prop import Property
import z3
from . import common, lib, den, equation_contracts, sector_contracts  # noqa
from . import C05 as _c05  # noqa  (GetVariableName)
from . import C06 as _c06  # noqa  (AddCashFlow, AddTerm)
from . import C12 as _c12  # noqa  (create_equation_from_terms)
from . import C18 as _c18  # noqa  (CurrencyZone.GetSectors: exactly the sectors of the zone; SetEquationRightHandSide)

P = Property('C04', 'other',
             'Contract on the real AST of Market._GenerateTermsLowLevel: the demand equation of a market is built from exactly those sectors of the '
             "market's currency zone (every one, in any position of the list, none else; CurrencyZone.GetSectors verified in C18) that declare the demand "
             'variable (DEM_<code> inside the country, DEM_<full code> from another country of the zone), each of them is booked the matching outflow, '
             'and the joined terms are installed as the right-hand side. Likewise MoneyMarket / DepositMarket._GenerateEquations (every asset-holding sector '
             'of the zone but the issuer enters the total exactly once; every deposit holder in the total is booked its interest, the issuer the interest paid), '
             'Sector.AddTermToEquation (adds exactly the term), Sector.GenerateAssetWeighting (residual weight = 1 minus every other weight, residual demand = '
             'F * weight). The clearing identities on solved models (demand = sum of demands, supply = demand, allocations add up, asset demands add up to '
             'wealth) and Market._GenerateMultiSupply are bounded.',
             'contract-based deductive verification: VCs generated from the real AST (pyvc), z3/cvc5; bounded model checks',
             design_ref='DESIGN.md section 6, C04')
P.trust('assumed contract of Sector.AddCashFlow(term, eqn: str) (ledger clauses as verified for eqn=None in C06; the definition rule is bounded, dyn/C06.py)',
        'contracts of GetVariableName (C05), create_equation_from_terms (C12), CurrencyZone.GetSectors and SetEquationRightHandSide (C18), AddVariable (verified in C11 for identifier-shaped names)')
P.not_decided.append('_GenerateMultiSupply (supply = demand, residual supplier, cross-currency suppliers) is not under contract; the value-level identities '
                     '(sums over the zone, weights adding up to 1 under T-STA) are bounded on solved models (dyn/C04.py)')
P.replay_script = 'dyn/C04.py'

cls('Market', fields=dict(ResidualSupply=Opt(Ref('Sector')), OtherSuppliers=List(Tup(Ref('Sector'), STR))))

fn('sfc_models.models.EconomicObject.ShareParent', args=dict(self=Ref('EconomicObject'), other=Ref('EconomicObject')), returns=BOOL,
   ensures=[('same_parent_object', 'result == (self.Parent is other.Parent)'), ('nothing_written', 'heap_unchanged_except()')])

F_OF = "%s.EquationBlock.Equations['F']"
# assumed (see P.trust): booking with a defining expression.  Ledger clause as verified for eqn=None; the tail may define the flow variable.
fn('sfc_models.sector.Sector.AddCashFlow', name='sfc_models.sector.Sector.AddCashFlow[eqn=str]',
   args=dict(self=Ref('Sector'), term=STR, eqn=STR, desc=STR, is_income=BOOL),
   modifies=['len.*', 'el.*', 'dh.S.R', 'dv.S.R', 'dk', 'tyof', 'f.Equation.*', 'f.Term.*'],
   ensures=[('F_gains_exactly_the_flow', "implies(term.strip() != '', Den(%s) == old(Den(%s)) + V(nospace(term)))" % (F_OF % 'self', F_OF % 'self')),
            ('variables_only_added', 'all(implies(old(has(r.EquationBlock.Equations, s)), has(r.EquationBlock.Equations, s)) for r in refs(Sector) for s in strings())'),
            ('other_sectors_keep_their_variables', 'all(implies(r is not self, has(r.EquationBlock.Equations, s) == old(has(r.EquationBlock.Equations, s))) for r in refs(Sector) for s in strings())'),
            ('old_lists_of_other_kinds_untouched', "heap_unchanged_except('tyof', 'len.*', 'el.*', 'dh.S.R', 'dv.S.R', 'dk', 'f.Equation.*', 'f.Term.*')"),
            # the only lists it mutates in place are the two ledgers' term lists (everything else it builds is a new list)
            ('only_the_ledger_term_lists_are_mutated', "lists_unchanged_but(old(self.EquationBlock.Equations['F'].TermList), old(self.EquationBlock.Equations['INC'].TermList))")],
   raises=[RaisesSpec('SyntaxError', when='True'), RaisesSpec('LogicError', when='True'), RaisesSpec('NotImplementedError', when='True'), RaisesSpec('ValueError', when='True')])

SHORT = "'DEM_' + self.Code"
LONG = "'DEM_' + self.FullCode"
NAME_J = "(%s if ZL[%%s].Parent is self.Parent else %s)" % (SHORT, LONG)


def name_j(j):
    return NAME_J % j


def full_j(j):
    return ("((ZL[%s].FullCode + '__' + %s) if ZL[%s].FullCode != '' else placeholder(ZL[%s].ID, %s))" % (j, name_j(j), j, j, name_j(j)))


# the lists this function allocates itself and never hands to a callee (term_list is handed only to create_equation_from_terms, whose
# verified contract leaves it unchanged) cannot be reached by any callee: after each contract call their contents are re-assumed.
PRIVATE = ('list_same_as(HP, ZL) and list_same_as(HP, term_list) and list_same_as(HP, had_) and list_same_as(HP, pos_) and list_same_as(HP, ix_)')
KEEP = '_assume(%r)' % PRIVATE
SCRATCH = ('fresh(ZL) and fresh(term_list) and fresh(had_) and fresh(pos_) and fresh(ix_) and had_ is not pos_ and ix_ is not pos_ and ix_ is not had_')
INV = [
    ('bounds', '0 <= i and i <= len(ZL)'),
    ('scratch', SCRATCH),
    ('one_record_per_sector_examined', 'len(had_) == i and len(pos_) == i'),
    ('sector_identities_kept', "heap_unchanged_except('tyof', 'len.*', 'el.*', 'dh.*', 'dv.*', 'dk', 'f.Equation.*', 'f.Term.*')"),
    ('included_iff_it_declares_the_demand', 'all(iff(pos_[j] >= 0, ZL[j].ID != self.ID and had_[j] == 1) and (pos_[j] >= 0 or pos_[j] == 0 - 1) for j in range(0, i))'),
    ('each_included_sector_has_its_term', "all(implies(pos_[j] >= 0, pos_[j] < len(term_list) and term_list[pos_[j]] == '+ ' + %s) for j in range(0, i))" % full_j('j')),
    ('terms_in_list_order', 'all(implies(pos_[j1] >= 0 and pos_[j2] >= 0 and j1 < j2, pos_[j1] < pos_[j2]) for j1 in range(0, i) for j2 in range(0, i))'),
    ('no_other_terms', 'len(ix_) == len(term_list) and all(0 <= ix_[m] and ix_[m] < i and pos_[ix_[m]] == m for m in range(0, len(term_list)))'),
]
P.verify(fn(
    'sfc_models.sector.Market._GenerateTermsLowLevel', name='sfc_models.sector.Market._GenerateTermsLowLevel[DEM]',
    args=dict(self=Ref('Market'), prefix=STR, long_desc=STR),
    requires=[('demand_side', "prefix == 'DEM'"),
              ('zone_objects_exist', 'all(allocated(self.CurrencyZone.CountryList[cc]) and allocated(self.CurrencyZone.CountryList[cc].SectorList) for cc in range(0, len(self.CurrencyZone.CountryList)))'),
              ('market_code_is_local', "not ('__' in 'DEM_' + self.Code) and plain_name(self.Code)")],
    hints={'strip_rich': True, ('empty_list', 'term_list'): STR, ('empty_list', 'had_'): INT, ('empty_list', 'pos_'): INT, ('empty_list', 'ix_'): INT},
    ghost_after=[('term_list = []', 'had_ = []\npos_ = []\nix_ = []'),
                 ('if self.ShareParent(s):', 'if var_name in s.EquationBlock.Equations:\n    had_[len(had_) - 1] = 1\n_snapshot("HP")'),
                 ("term_list.append('+ ' + term)", 'pos_[len(pos_) - 1] = len(term_list) - 1\nix_.append(len(pos_) - 1)\n_snapshot("HP")'),
                 (r're:term = s\.GetVariableName\(var_name\)', KEEP + '\n_snapshot("HP")'),
                 (r"re:s\.AddCashFlow\('-' \+ var_name, '', long_desc\)",
                  "_assert(%r, 'demander_is_booked_the_outflow')" % ("Den(s.EquationBlock.Equations['F']) == at(HP, Den(s.EquationBlock.Equations['F'])) + V(nospace('-' + var_name))") + '\n' + KEEP),
                 ],
    loops={0: LoopSpec(header='for s in self.CurrencyZone.GetSectors()', index='i', ghost={'ZL': '_it'},
                       body_ghost='had_.append(0)\npos_.append(0 - 1)\n_snapshot("HP")',
                       modifies=['len.*', 'el.*', 'dh.*', 'dv.*', 'dk', 'tyof', 'f.Equation.*', 'f.Term.*'], invariants=INV)},
    ensures=[('every_sector_of_the_zone_list_examined', 'len(pos_) == len(ZL) and len(had_) == len(ZL)')] +
            [(n, f.replace('range(0, i)', 'range(0, len(ZL))').replace('ix_[m] < i', 'ix_[m] < len(ZL)')) for (n, f) in INV[4:]] +
            [('demand_equation_is_the_joined_terms',
              "len(self.EquationBlock.Equations[%s].TermList) == 1 and self.EquationBlock.Equations[%s].TermList[0].IsBlob and "
              "self.EquationBlock.Equations[%s].TermList[0].Term == nospace(eqn)" % (SHORT, SHORT, SHORT)),
             ('empty_demand_is_the_empty_sum', "implies(len(term_list) == 0, eqn == '')")],
    raises=[RaisesSpec('SyntaxError', when='True'), RaisesSpec('LogicError', when='True'), RaisesSpec('NotImplementedError', when='True'),
            RaisesSpec('ValueError', when='True'), RaisesSpec('IndexError', when='True'), RaisesSpec('KeyError', when='True')],
))
P.assume('Market._GenerateTermsLowLevel: lists allocated by the function itself and never handed to a callee (the zone sector list, the term list before '
         'it is joined, ghost lists) are re-assumed unchanged after each contract call (no alias can exist: Python semantics)')
P.bound('markets', 'dyn/C04.py', 'markets', 'random economies (regional markets of a federated zone, cross-region demand, second suppliers with shares, cross-currency '
        'suppliers, money / deposit markets with asset allocation), solved: 25 (quick) / 500 (thorough)',
        'clearing identities on the solved series: demand = sum of declared demands of the zone, supply = demand, allocations add up, each supplier records '
        'what the market assigns (at the cross rate), asset demands add up to financial assets')

# ---- Sector.GenerateAssetWeighting (dict form) ------------------------------------------------------------------------
ArrS_ = z3.ArraySort(z3.IntSort(), z3.StringSort())
WChain = z3.Function('weight_chain', ArrS_, z3.IntSort(), z3.StringSort())


@specfn('weight_chain')
def weight_chain(ctx, d, i):
    """'1.0' followed by ' - WGT_<code>' for the first i codes of the dict, in iteration order (recursive definition, unfolded at i)"""
    kl = ctx.st.dict_keylist(d)
    E = ctx.st.list_elems(kl)
    t = i.t
    sv_ = z3.StringVal
    ctx.side.extend([WChain(E, z3.IntVal(0)) == sv_('1.0'),
                     z3.Implies(t > 0, WChain(E, t) == z3.Concat(WChain(E, t - 1), sv_(' - '), sv_('WGT_'), z3.Select(E, t - 1)))])
    return SV(STR, WChain(E, t))


AW = 'asset_weighting_dict'
BLK4 = 'self.EquationBlock.Equations'


def blob(var, text):
    e = '%s[%s]' % (BLK4, var)
    return 'has(%s, %s) and len(%s.TermList) == 1 and %s.TermList[0].IsBlob and %s.TermList[0].Term == nospace(%s)' % (BLK4, var, e, e, e, text)


P.verify(fn(
    'sfc_models.sector.Sector.GenerateAssetWeighting', name='sfc_models.sector.Sector.GenerateAssetWeighting[dict]',
    args=dict(self=Ref('Sector'), asset_weighting_dict=Dict(STR, STR), residual_asset_code=STR, is_absolute_weighting=BOOL),
    requires=[('relative_weights', 'not is_absolute_weighting'),
              ('codes_are_local_names', "all(implies(has(%s, s), not ('__' in 'WGT_' + s) and plain_name(s)) for s in strings()) and not ('__' in 'WGT_' + residual_asset_code) and plain_name(residual_asset_code)" % AW),
              ('the_rule_table_is_not_the_equation_block', '%s is not %s and keys(%s) is not keys(%s)' % (AW, BLK4, AW, BLK4))],
    loops={0: LoopSpec(header='for (code, weight_eqn) in asset_weighting_dict.items()', index='b', ghost={'H0': 'heap_now()'},
                       modifies=['len.R', 'el.R', 'len.S', 'el.S', 'dh.S.R', 'dv.S.R', 'dk', 'tyof', 'f.Equation.*', 'f.Term.*'], invariants=[
        ('bounds', '0 <= b and b <= len(keys(%s))' % AW),
        ('rule_table_untouched', 'dict_same_as(H0, %s)' % AW),
        ('residual_weight_is_one_minus_every_weight_so_far', 'residual_weight == weight_chain(%s, b)' % AW),
        ('block_kept', 'self.EquationBlock is old(self.EquationBlock) and %s is old(%s) and keys(%s) is not keys(%s) and not fresh(keys(%s))' % (BLK4, BLK4, AW, BLK4, AW)),
    ])},
    ensures=[('residual_weight_is_one_minus_every_other_weight', blob("'WGT_' + residual_asset_code", 'weight_chain(%s, len(keys(%s)))' % (AW, AW))),
             ('residual_demand_is_wealth_times_its_weight', blob("'DEM_' + residual_asset_code", "'F * WGT_' + residual_asset_code"))],
    raises=[RaisesSpec('ValueError', when='True')],
))

# ---- DepositMarket._GenerateEquations: holder aggregation and the interest bookings ----------------------------------------------------
cls('DepositMarket', fields=dict(IssuerShortCode=STR, SearchListSource=Ref('CurrencyZone')))
DN = "'DEM_' + self.Code"
HOLDER = "(not is_market(ZL[%s]) and ZL[%s].Code != self.IssuerShortCode and had_[%s] == 1)"


@specfn('is_market')
def is_market(ctx, s):
    """isinstance(s, Market): the dynamic type tag of s is Market or a subclass"""
    return mk_bool(ctx.st.tag_fact(SV(Ty('ref', 'Market'), s.t)))


PRIV_D = ('list_same_as(HP, ZL) and list_same_as(HP, dem_terms) and list_same_as(HP, had_) and list_same_as(HP, pos_) and list_same_as(HP, paid_) and '
          'dem_terms is not keys(mod_of(s).Aliases) and dem_terms is not keys(mod_of(self).Aliases)')
KEEP_D = '_assume(%r)\n_snapshot("HP")' % PRIV_D
ZONE_OK = 'all(allocated(self.SearchListSource.CountryList[cc]) and allocated(self.SearchListSource.CountryList[cc].SectorList) for cc in range(0, len(self.SearchListSource.CountryList)))'
P.verify(fn(
    'sfc_models.sector_definitions.DepositMarket._GenerateEquations',
    args=dict(self=Ref('DepositMarket')),
    requires=[('zone_objects_exist', ZONE_OK), ('market_code_is_local', "not ('__' in 'LAG_DEM_' + self.Code) and not ('__' in 'LAG_SUP_' + self.Code) and plain_name(self.Code)")],
    hints={'strip_rich': True, ('empty_list', 'dem_terms'): STR, ('empty_list', 'had_'): INT, ('empty_list', 'pos_'): INT, ('empty_list', 'paid_'): INT},
    ghost_after=[('dem_terms = []', 'had_ = []\npos_ = []\npaid_ = []'),
                 ("dem_name = 'DEM_' + self.Code", 'if len(had_) > 0:\n    if dem_name in s.EquationBlock.Equations:\n        had_[len(had_) - 1] = 1\n_snapshot("HP")'),
                 ("re:s\\.AddCashFlow\\('\\+INT' \\+ self\\.Code, .*",
                  "_assert(%r, 'holder_is_booked_the_interest')" % "Den(s.EquationBlock.Equations['F']) == at(HP, Den(s.EquationBlock.Equations['F'])) + V(nospace('+INT' + self.Code))" + '\npaid_[len(paid_) - 1] = 1\n' + KEEP_D),
                 ("re:s\\.AddCashFlow\\('-INT' \\+ self\\.Code, .*",
                  "_assert(%r, 'issuer_is_booked_the_interest_paid')" % "Den(s.EquationBlock.Equations['F']) == at(HP, Den(s.EquationBlock.Equations['F'])) + V(nospace('-INT' + self.Code))" + '\n' + KEEP_D),
                 ('dem_terms.append(s.GetVariableName(dem_name))', 'pos_[len(pos_) - 1] = len(dem_terms) - 1\n_snapshot("HP")'),
                 ('re:self\\.AddVariable\\(dem_name, .*', 'pass'),          # (the statement after the loop)
                 ('re:(s|self)\\.(AddVariable|AddCashFlow)\\(.*', KEEP_D),
                 ('re:term = s\\.GetVariableName\\(dem_name\\)', KEEP_D)],
    loops={0: LoopSpec(header='for s in self.SearchListSource.GetSectors()', index='i', ghost={'ZL': '_it'}, body_ghost='had_.append(0)\npos_.append(0 - 1)\npaid_.append(0)\n_snapshot("HP")',
                       modifies=['len.*', 'el.*', 'dh.*', 'dv.*', 'dk', 'tyof', 'f.Equation.*', 'f.Term.*'], invariants=[
        ('bounds', '0 <= i and i <= len(ZL)'),
        ('scratch', 'fresh(ZL) and fresh(dem_terms) and fresh(had_) and fresh(pos_) and fresh(paid_) and had_ is not pos_ and paid_ is not pos_ and paid_ is not had_'),
        ('one_record_per_sector_examined', 'len(had_) == i and len(pos_) == i and len(paid_) == i'),
        ('demand_name_fixed', "dem_name == 'DEM_' + self.Code"),
        ('every_holder_in_the_total_is_paid_interest', 'all(implies(pos_[j] >= 0, paid_[j] == 1) for j in range(0, i))'),
        ('zone_objects_exist', ZONE_OK),
        ('sector_identities_kept', "heap_unchanged_except('tyof', 'len.*', 'el.*', 'dh.*', 'dv.*', 'dk', 'f.Equation.*', 'f.Term.*')"),
        ('a_term_for_exactly_the_holders', 'all(iff(pos_[j] >= 0, %s) and (pos_[j] >= 0 or pos_[j] == 0 - 1) and implies(pos_[j] >= 0, pos_[j] < len(dem_terms)) for j in range(0, i))' % (HOLDER % ('j', 'j', 'j'))),
        ('terms_in_list_order', 'all(implies(pos_[j1] >= 0 and pos_[j2] >= 0 and j1 < j2, pos_[j1] < pos_[j2]) for j1 in range(0, i) for j2 in range(0, i))'),
    ])},
    ensures=[('every_sector_of_the_zone_list_examined', 'len(pos_) == len(ZL) and len(had_) == len(ZL)')],
    raises=[RaisesSpec('SyntaxError', when='True'), RaisesSpec('LogicError', when='True'), RaisesSpec('NotImplementedError', when='True'),
            RaisesSpec('ValueError', when='True'), RaisesSpec('IndexError', when='True'), RaisesSpec('KeyError', when='True')],
))

# ---- Sector.AddTermToEquation and MoneyMarket._GenerateEquations ----------------------------------------------------------------------
EQV = 'self.EquationBlock.Equations[varname]'
ATE = P.verify(fn(
    'sfc_models.sector.Sector.AddTermToEquation',
    args=dict(self=Ref('Sector'), varname=STR, term=STR),
    requires=[('well_formed_equation', 'implies(has(self.EquationBlock.Equations, varname), allocated(%s) and eq_inv(%s))' % (EQV, EQV))],
    modifies=['len.R', 'el.R', 'f.Term.Constant', 'f.Term.Term', 'f.Term.IsSimple', 'f.Term.IsBlob', 'f.Term.owner_', 'f.Term.pos_', 'tyof'],
    ghost_after=[('term = Term(term)', "_assert(%r, 'parsing_the_term_touches_no_equation')" %
                  ('implies(has(self.EquationBlock.Equations, varname), Den(%s) == old(Den(%s)) and eq_inv(%s))' % (EQV, EQV, EQV)))],
    ensures=[('value_added', 'Den(%s) == old(Den(%s)) + V(nospace(term))' % (EQV, EQV)),
             ('same_equation_object', '%s is old(%s) and %s.TermList is old(%s.TermList) and eq_inv(%s)' % (EQV, EQV, EQV, EQV, EQV)),
             ('only_its_terms_written', 'terms_frame(%s)' % EQV)],
    raises=[RaisesSpec('KeyError', when='not has(self.EquationBlock.Equations, varname)', iff=True),
            RaisesSpec('SyntaxError', when='True'), RaisesSpec('LogicError', when='True'), RaisesSpec('NotImplementedError', when='True')],
))

cls('MoneyMarket', fields=dict(IssuerShortCode=STR, SearchListSource=Ref('CurrencyZone')))
MEQ = "self.EquationBlock.Equations['DEM_' + self.Code]"
PRIV_M = 'list_same_as(HP, ZL) and list_same_as(HP, inc_)'
KEEP_M = '_assume(%r)\n_snapshot("HP")' % PRIV_M
MINV = "has(self.EquationBlock.Equations, 'DEM_' + self.Code) and allocated(%s) and eq_inv(%s)" % (MEQ, MEQ)
COUNTED = "_assert(%r, 'holder_demand_enters_the_total')" % ("Den(%s) == at(HP, Den(%s)) + V(nospace(%%s))" % (MEQ, MEQ))
P.verify(fn(
    'sfc_models.sector_definitions.MoneyMarket._GenerateEquations',
    args=dict(self=Ref('MoneyMarket')),
    requires=[('zone_objects_exist', ZONE_OK), ('market_code_is_local', "not ('__' in 'DEM_' + self.Code) and not ('__' in 'SUP_' + self.Code) and plain_name(self.Code)"),
              ('a_market_holds_no_assets', 'not self.HasF')],
    hints={'strip_rich': True, ('empty_list', 'dem_terms'): STR, ('empty_list', 'inc_'): INT},
    ghost_after=[('dem_terms = []', 'inc_ = []'),
                 ('self.AddTermToEquation(dem_name, term)', COUNTED % 'term' + '\ninc_[len(inc_) - 1] = 1\n' + KEEP_M),
                 ('self.AddTermToEquation(dem_name, s.GetVariableName(dem_name))', 'inc_[len(inc_) - 1] = 1\n' + KEEP_M),
                 ("re:self\\.AddVariable\\(dem_name, 'Total demand for ' \\+ self\\.LongName, ''\\)", 'pass'),      # (before the loop)
                 ('re:(s|self)\\.AddVariable\\(.*', KEEP_M),
                 ('re:term = s\\.GetVariableName\\(dem_name\\)', KEEP_M)],
    loops={0: LoopSpec(header='for s in self.SearchListSource.GetSectors()', index='i', ghost={'ZL': '_it'}, body_ghost='inc_.append(0)\n_snapshot("HP")',
                       modifies=['len.*', 'el.*', 'dh.*', 'dv.*', 'dk', 'tyof', 'f.Equation.*', 'f.Term.*'], invariants=[
        ('bounds', '0 <= i and i <= len(ZL)'),
        ('scratch', 'fresh(ZL) and fresh(inc_)'),
        ('one_record_per_sector_examined', 'len(inc_) == i'),
        ('zone_objects_exist', ZONE_OK),
        ('demand_name_fixed', "dem_name == 'DEM_' + self.Code"),
        ('total_demand_equation_well_formed', MINV),
        ('sector_identities_kept', "heap_unchanged_except('tyof', 'len.*', 'el.*', 'dh.*', 'dv.*', 'dk', 'f.Equation.*', 'f.Term.*')"),
        ('every_asset_holding_sector_but_the_issuer_is_in_the_total', 'all(iff(inc_[j] == 1, ZL[j].HasF and ZL[j].Code != self.IssuerShortCode) and (inc_[j] == 0 or inc_[j] == 1) for j in range(0, i))'),
    ])},
    ensures=[('every_sector_of_the_zone_list_examined', 'len(inc_) == len(ZL)')],
    raises=[RaisesSpec('SyntaxError', when='True'), RaisesSpec('LogicError', when='True'), RaisesSpec('NotImplementedError', when='True'),
            RaisesSpec('ValueError', when='True'), RaisesSpec('KeyError', when='True')],
))
