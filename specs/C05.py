"""
C05 - Generated system is closed, canonical and free of placeholder names.
"""
from pyvc.types import *
from pyvc.spec import fn, cls, RaisesSpec, LoopSpec, specfn
from pyvc.prop import Property
import z3
from . import common, lib, den, sector_contracts  # noqa
from . import C13 as _c13  # noqa  (renamed(), block_inv, contracts of the ReplaceTokensFromLookup wrappers)

P = Property('C05', 'other',
             'Contracts on the real AST of Sector.GetVariableName (canonical name FullCode__name once full codes exist, otherwise a placeholder '
             '_<ID>__name that is registered as an alias of exactly (sector, name)), Model._GenerateFullSectorCodes (country prefix iff more than one '
             'country) and Model._FixAliases (the lookup maps every registered alias to its canonical name, and the model-level equations and '
             'exogenous definitions are rewritten with that lookup, like the sector equations), discharged by z3/cvc5. Closedness of the emitted '
             'system and "each emitted equation means what the local one meant" are bounded (token scan / solution comparison on generated models).',
             'contract-based deductive verification: VCs generated from the real AST (pyvc), z3/cvc5; bounded model scan',
             design_ref='DESIGN.md section 6, C05')
P.trust('T-TOK / T-EVAL (see C13): rewriting NAME tokens through the lookup removes every token that is a key of the lookup and preserves meaning under injective renaming',
        'contracts of the ReplaceTokensFromLookup wrappers (verified in C13), GetEquationList (sorted key list), Logger (no model state)')
P.not_decided.append('closedness (every right-hand-side name is defined, k, t or a permitted function), "defined exactly once" across colliding full codes '
                     '(known finding F5) and meaning preservation of Sector._CreateFinalEquations: bounded token scan in dyn/C05.py')
P.replay_script = 'dyn/C05.py'

# the three wrappers that carry the lookup down to every term text are verified here too (same contracts as in C13): a change that breaks
# them breaks "no placeholder survives"
for _w in (_c13.TERM_RTFL, _c13.EQ_RTFL, _c13.BLOCK_RTFL):
    P.verify(_w)

StrOfInt = z3.Function('py_str_int', z3.IntSort(), z3.StringSort())


@specfn('placeholder')
def placeholder(ctx, ident, name):
    """the temporary alias handed out before full codes exist: '_' + str(ID) + '__' + name"""
    return SV(STR, z3.Concat(z3.StringVal('_'), StrOfInt(ident.t), z3.StringVal('__'), name.t))


MODEL = 'mod_of(self)'
GVN = P.verify(fn(
    'sfc_models.sector.Sector.GetVariableName',
    args=dict(self=Ref('Sector'), varname=STR), returns=STR,
    modifies=['dh.S.TR_SE', 'dv.S.TR_SE', 'dk', 'len.S', 'el.S', 'tyof'],
    ensures=[
        ('canonical_when_full_codes_exist', "implies(old(self.FullCode) != '', result == old(self.FullCode) + '__' + varname and heap_unchanged_except('tyof'))"),
        ('placeholder_registered_otherwise',
         "implies(old(self.FullCode) == '', result == placeholder(self.ID, varname) and has(%s.Aliases, result) and "
         "%s.Aliases[result][0] is self and %s.Aliases[result][1] == varname)" % (MODEL, MODEL, MODEL)),
        ('other_aliases_kept', "all(implies(old(has(%s.Aliases, s)), has(%s.Aliases, s) and (s == result or same(%s.Aliases[s], old(%s.Aliases[s])))) for s in strings())" % (MODEL, MODEL, MODEL, MODEL)),
        ('only_the_alias_table_written', "heap_unchanged_except('tyof', 'dh.S.TR_SE', 'dv.S.TR_SE', 'dk', 'len.S', 'el.S')"),
        ('only_this_models_alias_table_written', "old_objects_unchanged_except_dict(%s.Aliases)" % MODEL),
        ('alias_key_order_list_is_new_or_kept', 'fresh(keys(%s.Aliases)) or keys(%s.Aliases) is old(keys(%s.Aliases))' % (MODEL, MODEL, MODEL)),
    ],
    raises=[RaisesSpec('KeyError', when='not has(self.EquationBlock.Equations, varname)', iff=True, ensures=[('nothing_written', "heap_unchanged_except('tyof')")]),
            RaisesSpec('ValueError', when="has(self.EquationBlock.Equations, varname) and self.FullCode != '' and ('__' in self.FullCode or '__' in varname)", iff=True,
                       ensures=[('nothing_written', "heap_unchanged_except('tyof')")])],
))

# ---- Model._GenerateFullSectorCodes ----------------------------------------------------------------------------
EXPECTED = "(self.CountryList[c].Code + '_' + self.CountryList[c].SectorList[i].Code if len(self.CountryList) > 1 else self.CountryList[c].SectorList[i].Code)"
SECTORS_DISTINCT = ('all(implies(c1 != c2 or i1 != i2, self.CountryList[c1].SectorList[i1] is not self.CountryList[c2].SectorList[i2]) '
                    'for c1 in range(0, len(self.CountryList)) for i1 in range(0, len(self.CountryList[c1].SectorList)) '
                    'for c2 in range(0, len(self.CountryList)) for i2 in range(0, len(self.CountryList[c2].SectorList)))')
P.verify(fn(
    'sfc_models.models.Model._GenerateFullSectorCodes',
    args=dict(self=Ref('Model')),
    requires=[('each_sector_listed_once', SECTORS_DISTINCT)],
    loops={
        0: LoopSpec(header='for cntry in self.CountryList', index='c', modifies=['f.Sector.FullCode'], invariants=[
            ('bounds', '0 <= c and c <= len(self.CountryList)'),
            ('done_countries', 'all(self.CountryList[cc].SectorList[i].FullCode == %s for cc in range(0, c) for i in range(0, len(self.CountryList[cc].SectorList)))' % EXPECTED.replace('[c]', '[cc]')),
        ]),
        1: LoopSpec(header='for sector in cntry.SectorList', index='t', modifies=['f.Sector.FullCode'], invariants=[
            ('bounds', '0 <= t and t <= len(cntry.SectorList) and cntry is self.CountryList[c] and 0 <= c and c < len(self.CountryList)'),
            ('done_countries', 'all(self.CountryList[cc].SectorList[i].FullCode == %s for cc in range(0, c) for i in range(0, len(self.CountryList[cc].SectorList)))' % EXPECTED.replace('[c]', '[cc]')),
            ('done_sectors', 'all(cntry.SectorList[i].FullCode == %s for i in range(0, t))' % EXPECTED),
        ]),
    },
    ensures=[('prefix_iff_several_countries',
              'all(self.CountryList[c].SectorList[i].FullCode == %s for c in range(0, len(self.CountryList)) for i in range(0, len(self.CountryList[c].SectorList)))' % EXPECTED),
             ('only_full_codes_written', "heap_unchanged_except('f.Sector.FullCode')")],
))

# ---- Model._FixAliases ---------------------------------------------------------------------------------------------
fn('sfc_models.models.Model.GetSectors', args=dict(self=Ref('Model')), returns=List(Ref('Sector')),
   ensures=[('fresh', 'fresh(result)'),
            ('only_listed_sectors', 'all(any(any(result[q] is self.CountryList[c].SectorList[i] for i in range(0, len(self.CountryList[c].SectorList))) '
                                    'for c in range(0, len(self.CountryList))) for q in range(0, len(result)))')])
# EquationBlock.ReplaceTokensFromLookup at the call inside Sector._ReplaceAliases: verified in C13; here only its frame is used
CANON = "%s.Aliases[s][0].FullCode + '__' + %s.Aliases[s][1]"

P.verify(fn(
    'sfc_models.models.Model._FixAliases',
    args=dict(self=Ref('Model')),
    hints={('empty_dict', 'lookup'): Dict(STR, STR)},
    requires=[('full_codes_assigned', "all(implies(has(self.Aliases, s), self.Aliases[s][0].FullCode != '' and not ('__' in self.Aliases[s][0].FullCode) and "
                                      "not ('__' in self.Aliases[s][1]) and has(self.Aliases[s][0].EquationBlock.Equations, self.Aliases[s][1])) for s in strings())"),
              ('blocks_well_formed', 'all(block_inv(self.CountryList[c].SectorList[i].EquationBlock) for c in range(0, len(self.CountryList)) for i in range(0, len(self.CountryList[c].SectorList)))')],
    loops={
        0: LoopSpec(header='for alias in self.Aliases', index='a', modifies=['dh.S.S', 'dv.S.S', 'dk', 'len.S', 'el.S', 'tyof'], ghost={'HA': 'heap_now()'}, invariants=[
            ('bounds', '0 <= a and a <= len(keys(self.Aliases))'),
            ('nothing_else_written', "heap_unchanged_except('tyof', 'dh.S.S', 'dv.S.S', 'dk', 'len.S', 'el.S') and fresh(lookup)"),
            ('alias_table_kept', 'dict_same_as(HA, self.Aliases)'),
            ('canonical_so_far', "all(has(lookup, keys(self.Aliases)[q]) and lookup[keys(self.Aliases)[q]] == self.Aliases[keys(self.Aliases)[q]][0].FullCode + '__' + self.Aliases[keys(self.Aliases)[q]][1] "
                                 "for q in range(0, a))"),
        ]),
        1: LoopSpec(header='for sector in self.GetSectors()', index='b', modifies=['f.Term.Term'], invariants=[
            ('only_texts_written', "heap_unchanged_except('tyof', 'f.Term.Term', 'dh.S.S', 'dv.S.S', 'dk', 'len.S', 'el.S')"),
            ('lookup_fresh', 'fresh(lookup)'),
        ]),
    },
    ensures=[
        ('every_alias_maps_to_its_canonical_name',
         "all(implies(has(self.Aliases, s), has(lookup, s) and lookup[s] == self.Aliases[s][0].FullCode + '__' + self.Aliases[s][1]) for s in strings())"),
        ('model_level_equations_rewritten',
         'len(self.GlobalVariables) == old(len(self.GlobalVariables)) and all(self.GlobalVariables[j][0] == old(self.GlobalVariables[j][0]) and '
         'self.GlobalVariables[j][1] == renamed(old(self.GlobalVariables[j][1]), lookup) and self.GlobalVariables[j][2] == old(self.GlobalVariables[j][2]) '
         'for j in range(0, len(self.GlobalVariables)))'),
        ('exogenous_definitions_rewritten',
         'len(self.Exogenous) == old(len(self.Exogenous)) and all(self.Exogenous[j][1] == old(self.Exogenous[j][1]) and '
         'self.Exogenous[j][2] == renamed(old(self.Exogenous[j][2]), lookup) for j in range(0, len(self.Exogenous)))'),
    ],
    raises=[RaisesSpec('Exception', when='True')],
))

P.bound('generated-models', 'dyn/C05.py', 'closed',
        'random model programs: 1..3 countries, own / shared currency, optional external sector, four economy variants, placeholder embedded in a model-level equation; 40 (quick) / 600 (thorough)',
        'closedness, canonical names, single definition, no placeholder in the emitted text (token scan), and the embedded model-level equation holds in the solution')
