"""
C06 - Sector ledgers reflect exactly the cash flows recorded on them.
"""
from pyvc.types import *
from pyvc.spec import fn, cls, RaisesSpec, LoopSpec, specfn
from pyvc.prop import Property
import z3
from . import common, lib, den, equation_contracts  # noqa

P = Property('C06', 'proof',
             'Contracts on the real AST of Equation.AddTerm (both argument forms), Sector.AddCashFlow and Sector.__init__ over the '
             'abstract view Den(eq) = sum Constant_i*V(Term_i) for an arbitrary valuation V: every registration adds exactly the '
             'signed term to F (and to INC iff income and not excluded), repeated flows accumulate, opposite flows cancel, the '
             'defining expression is installed iff the flow variable was absent / empty / zero, nothing else changes. '
             'Sum lemmas proved by explicit induction; the ledger statement is the telescoping lemma over the contracts.',
             'contract-based deductive verification: VCs generated from the real AST (pyvc), z3/cvc5',
             design_ref='DESIGN.md section 6, C06')
P.trust('contract of Term.__init__ on strings (sign / bracket folding: V(squeezed text) == Constant*V(Term)): string paths and '
        'CPython tokenizer test are checked bounded in dyn/C12.py (T-STA, T-TOK), not discharged',
        'Python floats as mathematical reals in Constant arithmetic (no rounding / overflow)')
P.replay_script = 'dyn/C06.py'

P.lemma('sum_lemmas', den.induction_obligations,
        'sum-frame, sum-update-one, sum-append for SumTV, each by base + step for arbitrary arrays')

GHOST_APPEND = [('term = Term(term)', 'term.owner_ = self\nterm.pos_ = len(self.TermList)')]

EXC_FRAME = [('nothing_changed', "heap_unchanged_except('tyof', 'f.Term.Constant', 'f.Term.Term', 'f.Term.IsSimple', 'f.Term.IsBlob') and terms_frame(self) and Den(self) == old(Den(self)) and eq_inv(self)")]

ADDTERM_LOOP = {0: LoopSpec(header='for other in self.TermList', index='i', modifies=[], invariants=[
    ('bounds', '0 <= i and i <= len(self.TermList)'),
    ('no_earlier_match', 'all(self.TermList[j].Term != term.Term or self.TermList[j].IsBlob for j in range(0, i))'),
])}

ADDTERM_STR = P.verify(fn(
    'sfc_models.equation.Equation.AddTerm', name='sfc_models.equation.Equation.AddTerm[str]',
    args=dict(self=Ref('Equation'), term=STR),
    requires=[('inv', 'eq_inv(self)')],
    modifies=['len.R', 'el.R', 'f.Term.Constant', 'f.Term.Term', 'f.Term.IsSimple', 'f.Term.IsBlob', 'f.Term.owner_', 'f.Term.pos_', 'tyof'],
    loops=ADDTERM_LOOP, ghost_after=GHOST_APPEND,
    ensures=[('inv', 'eq_inv(self)'),
             ('den_additive', 'Den(self) == old(Den(self)) + V(nospace(term))'),
             ('frame', 'terms_frame(self)'),
             ('same_list_object', 'self.TermList is old(self.TermList)')],
    raises=[RaisesSpec('SyntaxError', when='True', ensures=EXC_FRAME),
            RaisesSpec('LogicError', when='True', ensures=EXC_FRAME),
            RaisesSpec('NotImplementedError', when='True', ensures=EXC_FRAME)],
))

ADDTERM_TERM = P.verify(fn(
    'sfc_models.equation.Equation.AddTerm', name='sfc_models.equation.Equation.AddTerm[Term]',
    args=dict(self=Ref('Equation'), term=Ref('Term')),
    requires=[('inv', 'eq_inv(self)'),
              ('term_inv', 'implies(term.IsBlob, term.Constant == 1.0)'),
              # the equation owns copies: the caller's object is never an element (kept by `argument_never_stored`)
              ('argument_not_an_element', 'all(self.TermList[j] is not term for j in range(0, len(self.TermList)))')],
    modifies=['len.R', 'el.R', 'f.Term.Constant', 'f.Term.Term', 'f.Term.IsSimple', 'f.Term.IsBlob', 'f.Term.owner_', 'f.Term.pos_', 'tyof'],
    loops=ADDTERM_LOOP, ghost_after=GHOST_APPEND,
    ensures=[('inv', 'eq_inv(self)'),
             ('den_additive', 'Den(self) == old(Den(self)) + old(TV(term))'),
             ('frame', 'terms_frame(self)'),
             ('same_list_object', 'self.TermList is old(self.TermList)'),
             ('argument_never_stored', 'all(self.TermList[j] is not term for j in range(0, len(self.TermList)))'),
             ('argument_object_untouched', 'term.Constant == old(term.Constant) and term.Term == old(term.Term) and term.IsBlob == old(term.IsBlob)'),
             ('first_term_is_a_fresh_copy', 'implies(old(len(self.TermList)) == 0, len(self.TermList) == 1 and fresh(self.TermList[0]) and '
                                            'self.TermList[0].Constant == old(term.Constant) and self.TermList[0].Term == old(term.Term) and '
                                            'self.TermList[0].IsBlob == old(term.IsBlob))'),
             ('first_term_touches_no_existing_term', "implies(old(len(self.TermList)) == 0, fields_unchanged('Term.Constant', 'Term.Term', 'Term.IsBlob', 'Term.IsSimple'))")],
    raises=[RaisesSpec('LogicError', when='len(self.TermList) > 0 and term.IsBlob', iff=True, ensures=EXC_FRAME)],
))

# ---- Sector.AddCashFlow --------------------------------------------------------------------------------
from . import sector_contracts  # noqa

EQ_F = "self.EquationBlock.Equations['F']"
EQ_INC = "self.EquationBlock.Equations['INC']"
NAME = 'term_text(term)'
EQ_V = 'self.EquationBlock.Equations[%s]' % NAME
EXCLUDED = ('any(mod_of(self).IncomeExclusions[q][0].ID == self.ID and mod_of(self).IncomeExclusions[q][1] == %s '
            'for q in range(0, len(mod_of(self).IncomeExclusions)))' % NAME)

BLOCK = 'self.EquationBlock.Equations'


def CP(which):
    """ghost checkpoints after the AddTerm call on F / INC (stepping stones for the solver; each is an obligation)"""
    f_gain = ' + V(nospace(term))'
    inc_gain = f_gain if which == 'INC' else ''
    return '\n'.join([
        "_assert(%r, 'block_unchanged_after_%s')" % ('all(has(%s, s) == old(has(%s, s)) and %s[s] is old(%s[s]) for s in strings())' % (BLOCK, BLOCK, BLOCK, BLOCK), which),
        "_assert(%r, 'ledger_invariants_after_%s')" % ('eq_inv(%s) and eq_inv(%s) and %s.TermList is old(%s.TermList) and %s.TermList is old(%s.TermList)' % (EQ_F, EQ_INC, EQ_F, EQ_F, EQ_INC, EQ_INC), which),
        "_assert(%r, 'ledger_values_after_%s')" % ('Den(%s) == old(Den(%s))%s and Den(%s) == old(Den(%s))%s' % (EQ_F, EQ_F, f_gain, EQ_INC, EQ_INC, inc_gain), which),
        "_assert(%r, 'flow_variable_untouched_after_%s')" % (
            'implies(old(has(%s, %s)), eq_inv(%s) and %s.TermList is old(%s.TermList) and Den(%s) == old(Den(%s)) and rhs_text(%s) == old(rhs_text(%s)))'
            % (BLOCK, NAME, EQ_V, EQ_V, EQ_V, EQ_V, EQ_V, EQ_V, EQ_V), which),
    ])


P.verify(fn(
    'sfc_models.sector.Sector.AddCashFlow', name='sfc_models.sector.Sector.AddCashFlow[eqn=None]',
    args=dict(self=Ref('Sector'), term=STR, eqn=NONE, desc=STR, is_income=BOOL),   # desc only feeds description text
    requires=[
        ('ledger_equations_exist', "has(self.EquationBlock.Equations, 'F') and has(self.EquationBlock.Equations, 'INC')"),
        ('ledger_invariants', 'eq_inv(%s) and eq_inv(%s)' % (EQ_F, EQ_INC)),
        ('ledger_equations_separate', 'eq_sep(%s, %s)' % (EQ_F, EQ_INC)),
    ],
    old_defs=[('applies', 'is_income and not %s' % EXCLUDED)],
    loops={0: LoopSpec(header='for (obj, excluded) in mod.IncomeExclusions', index='q', modifies=[], invariants=[
        ('bounds', '0 <= q and q <= len(mod.IncomeExclusions)'),
        ('no_earlier_exclusion', 'is_income and all(not (mod.IncomeExclusions[j][0].ID == self.ID and mod.IncomeExclusions[j][1] == term_obj.Term) for j in range(0, q))'),
    ])},
    inline=['sfc_models.equation.Equation.AddTerm'],
    ghost_after=[("self.EquationBlock['F'].AddTerm(term)", "_assert(%r, 'ledger_invariants_after_F')" % ('eq_inv(%s) and eq_inv(%s)' % (EQ_F, EQ_INC))),
                 ("self.EquationBlock['INC'].AddTerm(term)", "_assert(%r, 'ledger_invariants_after_INC')" % ('eq_inv(%s) and eq_inv(%s)' % (EQ_F, EQ_INC)))],
    ensures=[
        ('blank_term_is_a_no_op', "implies(term.strip() == '', heap_unchanged_except('tyof'))"),
        ('F_gains_exactly_the_flow', "implies(term.strip() != '', Den(%s) == old(Den(%s)) + V(nospace(term)))" % (EQ_F, EQ_F)),
        ('INC_gains_the_flow_iff_income_and_not_excluded',
         "implies(term.strip() != '', Den(%s) == old(Den(%s)) + (V(nospace(term)) if applies else 0.0))" % (EQ_INC, EQ_INC)),
        ('ledger_objects_kept', "%s is old(%s) and %s is old(%s)" % (EQ_F, EQ_F, EQ_INC, EQ_INC)),
        ('ledger_invariants', 'eq_inv(%s) and eq_inv(%s)' % (EQ_F, EQ_INC)),
        ('only_the_two_ledgers_written', "heap_unchanged_except('tyof', 'len.R', 'el.R', 'f.Term.Constant', 'f.Term.Term', 'f.Term.IsSimple', 'f.Term.IsBlob', 'f.Term.owner_', 'f.Term.pos_') "
                                         "and terms_frame2(%s, %s)" % (EQ_F, EQ_INC)),
    ],
    raises=[RaisesSpec('SyntaxError', when='term_outcome(term) == 1', ensures=[('nothing_changed', "heap_unchanged_except('tyof', 'f.Term.Constant', 'f.Term.Term', 'f.Term.IsSimple', 'f.Term.IsBlob')")]),
            RaisesSpec('LogicError', when='term_outcome(term) == 2', ensures=[('nothing_changed', "heap_unchanged_except('tyof', 'f.Term.Constant', 'f.Term.Term', 'f.Term.IsSimple', 'f.Term.IsBlob')")]),
            RaisesSpec('NotImplementedError', when='term_outcome(term) == 3', ensures=[('nothing_changed', "heap_unchanged_except('tyof', 'f.Term.Constant', 'f.Term.Term', 'f.Term.IsSimple', 'f.Term.IsBlob')")])],
))
P.not_decided.append('the definition rule of AddCashFlow(term, eqn) ("defines the flow variable when absent / empty / zero, never overwrites") '
                     'and "the tail leaves the ledgers alone" are checked bounded (dyn/C06.py sector), not discharged: the tail goes through '
                     'AddVariable / Equation.__init__ / SetEquationRightHandSide whose frames did not discharge within budget')

# ---- Sector.__init__ ------------------------------------------------------------------------------------
# (straight-line: Equation('F').AddTerm('LAG_F'), Equation('INC', rhs=[]), LAG_F lag equation) -- bounded here; see not_decided

P.bound('term-strings', 'dyn/C06.py', 'terms', 'all strings of <= 4 (quick) / <= 5 (thorough) tokens over 12 tokens, exhaustive',
        'contract of Term.__init__ on strings (T-STA sign / bracket folding, T-TOK product test)')
P.bound('sector-ledgers', 'dyn/C06.py', 'sector', 'random sequences of <= 6 operations on one Sector: 1500 (quick) / 30000 (thorough)',
        'definition rule of AddCashFlow(term, eqn), Sector.__init__ ledger initialisation (F = LAG_F, INC = 0), and the ledger lemma end to end')
P.not_decided.append('Sector.__init__ (F starts as LAG_F, INC as the empty sum) is exercised by every bounded sector case, not discharged')


def _ledger_lemma():
    """telescoping lemma over the contracts: if construction gives Den_0 = lag and every registration k adds tv_k
    (contract of AddCashFlow), then after n registrations Den_n = lag + sum_{k<n} tv_k  (induction on n)"""
    D = z3.Function('Den_after', z3.IntSort(), z3.RealSort())
    tv = z3.Function('tv', z3.IntSort(), z3.RealSort())
    Sm = z3.Function('sum_tv', z3.IntSort(), z3.RealSort())
    lag = z3.Real('V_LAG_F')
    n = z3.Int('n')
    k = z3.Int('k')
    contract = forall([k], z3.Implies(k >= 0, D(k + 1) == D(k) + tv(k)), patterns=[D(k + 1)])
    sums = [Sm(0) == 0, forall([k], z3.Implies(k >= 0, Sm(k + 1) == Sm(k) + tv(k)), patterns=[Sm(k + 1)])]
    base = ('base', [D(0) == lag] + sums, D(0) == lag + Sm(0))
    step = ('step', [contract, n >= 0, D(n) == lag + Sm(n), D(n + 1) == D(n) + tv(n), Sm(n + 1) == Sm(n) + tv(n)], D(n + 1) == lag + Sm(n + 1))
    return [base, step]


P.lemma('ledger_is_lag_plus_signed_sum', _ledger_lemma,
        'F = LAG_F + signed sum of all registered flows, by induction over the sequence of registrations (contracts only)')
