"""
C07 - Cross-currency flows conserve value at the prevailing exchange rates.
"""
from pyvc.types import *
from pyvc.spec import fn, cls, RaisesSpec, LoopSpec, specfn
from pyvc.prop import Property
import z3
from . import common, lib, den, equation_contracts, sector_contracts  # noqa
from . import C06 as _c06  # noqa  (AddTerm contracts, inlined with their loop invariants)
from . import C05 as _c05  # noqa  (GetVariableName contract)
from . import C11 as _c11  # noqa  (Country.__getitem__ contract)
from .den import V, Mul

P = Property('C07', 'proof',
             'Contracts on the real AST of ExchangeRates.GetCrossRate (the cross-rate variable local_foreign is defined as local/foreign, once), '
             'ForexTransations._SendMoney (NET_src gains the amount, NET_NUMERAIRE loses amount*XR_src) and _ReceiveMoney (the receiver term is '
             'amount*cross(src,tgt), NET_tgt loses it, NET_NUMERAIRE gains amount*XR_src) over the abstract view Den of the FX equations, and the pair '
             'lemma (real arithmetic): one send + one receive of the same amount leave the numeraire position unchanged and the numeraire-valued '
             'sum of the currency positions unchanged, the receiver being credited amount*XR_src/XR_tgt.',
             'contract-based deductive verification: VCs generated from the real AST (pyvc), z3/cvc5',
             design_ref='DESIGN.md section 6, C07')
P.trust('T-STA (see C12) extended by products and quotients of names: V(a*b) = V(a)*V(b), V(a/b) = V(a)/V(b) for identifier-shaped a, b',
        'contracts of AddTerm / Term.__init__ (C06), GetVariableName (C05), Country.__getitem__ (C11)',
        'assumption (known finding F20): currency codes contain no "_" (the cross-rate variable is named local_foreign)')
P.not_decided.append('the whole-model statement (every period, every registered flow / supplier / gold purchase, time-varying rates): bounded, dyn/C07.py')
P.replay_script = 'dyn/C07.py'


@specfn('div_text')
def div_text(ctx, a, b):
    """T-STA: the text a/b of two identifier-shaped names is worth V(a)/V(b)"""
    t = z3.Concat(a.t, z3.StringVal('/'), b.t)
    return SV(STR, t)


ALIAS_FIELDS = "'dh.S.TR_SE', 'dv.S.TR_SE', 'dk', 'len.S', 'el.S'"
XR_GCR = P.verify(fn(
    'sfc_models.external.ExchangeRates.GetCrossRate', name='sfc_models.external.ExchangeRates.GetCrossRate[str]',
    args=dict(self=Ref('ExchangeRates'), local=STR, foreign=STR), returns=STR,
    requires=[('full_code_is_plain', "not ('__' in self.FullCode)"),
              ('currency_codes_are_plain', "not ('__' in local + '_' + foreign) and plain_name(local + '_' + foreign)")],
    modifies=['len.*', 'el.*', 'dh.S.R', 'dv.S.R', 'dh.S.TR_SE', 'dv.S.TR_SE', 'dk', 'tyof', 'f.Equation.*', 'f.Term.*'],
    ensures=[('names_the_cross_rate_variable', "result == (self.FullCode + '__' + local + '_' + foreign if self.FullCode != '' else placeholder(self.ID, local + '_' + foreign))"),
             ('variable_exists', "has(self.EquationBlock.Equations, local + '_' + foreign)"),
             ('defined_as_local_over_foreign_when_created',
              "implies(not old(has(self.EquationBlock.Equations, local + '_' + foreign)), "
              "len(self.EquationBlock.Equations[local + '_' + foreign].TermList) == 1 and self.EquationBlock.Equations[local + '_' + foreign].TermList[0].IsBlob and "
              "self.EquationBlock.Equations[local + '_' + foreign].TermList[0].Term == nospace(local + '/' + foreign))"),
             ('existing_definition_kept', "implies(old(has(self.EquationBlock.Equations, local + '_' + foreign)), heap_unchanged_except('tyof', %s))" % ALIAS_FIELDS),
             ('other_equations_kept', "all(implies(s != local + '_' + foreign, has(self.EquationBlock.Equations, s) == old(has(self.EquationBlock.Equations, s)) and "
                                      "self.EquationBlock.Equations[s] is old(self.EquationBlock.Equations[s])) for s in strings())"),
             ('existing_objects_untouched', "old_objects_unchanged_except_dict(self.EquationBlock.Equations, mod_of(self).Aliases)")],
    raises=[],
    only_raises=True,
))

# ---- ForexTransations._SendMoney / _ReceiveMoney ---------------------------------------------------------------
XRS = "xr_sector(self.Parent)"


@specfn('xr_sector')
def xr_sector(ctx, fx):
    """the XR sector found by self.Parent['XR'] (existentially bound through the contract of Country.__getitem__): an
    uninterpreted function of the FX object, constrained by the precondition `xr_is_the_only_XR`"""
    f = z3.Function('xr_sector_of', z3.IntSort(), z3.IntSort())
    return SV(Ty('ref', 'Sector'), f(fx.t))


@specfn('term_objects_frame')
def term_objects_frame(ctx, eq):
    """what a mutation of `eq` leaves alone among the objects that carry equation values: every list allocated at entry other
    than eq.TermList; Term.Constant of every old object not owned by eq (ghost owner_, entry state); every other Term / Equation field"""
    from pyvc.state import FAM_SORTS, fam_init
    st, old = ctx.st, ctx.entry
    tl = old.get_field(eq, 'TermList')
    O0 = old.heap[old.field_family('Term', 'owner_')[0]]
    r = z3.Int(fresh_name('r'))
    conj = []
    for name in sorted(FAM_SORTS):
        now = st.heap[name] if name in st.heap else fam_init(name)
        then = old.heap[name] if name in old.heap else fam_init(name)
        if now is then or z3.eq(now, then):
            continue
        live = z3.And(r > 0, r < old.alloc)
        if name.startswith('len.R') or name.startswith('el.R'):
            conj.append(forall([r], z3.Implies(z3.And(live, r != tl.t), z3.Select(now, r) == z3.Select(then, r)), patterns=[z3.Select(now, r)]))
        elif name == 'f.Term.Constant':
            conj.append(forall([r], z3.Implies(z3.And(live, z3.Select(O0, r) != eq.t), z3.Select(now, r) == z3.Select(then, r)), patterns=[z3.Select(now, r)]))
        elif name.startswith('f.Term.') or name.startswith('f.Equation.'):
            conj.append(forall([r], z3.Implies(live, z3.Select(now, r) == z3.Select(then, r)), patterns=[z3.Select(now, r)]))
    return mk_bool(z3.And(*conj) if conj else z3.BoolVal(True))


def eqn(cur):
    return "self.EquationBlock.Equations['NET_' + %s]" % cur


NUM = "self.EquationBlock.Equations['NET_NUMERAIRE']"
FULLNAME = ("(variable_name if '__' in variable_name else (source_sector.FullCode + '__' + variable_name "
            "if source_sector.FullCode != '' else placeholder(source_sector.ID, variable_name)))")
XRNAME = "((%s.FullCode + '__' + %%s) if %s.FullCode != '' else placeholder(%s.ID, %%s))" % (XRS, XRS, XRS)
TERM_FIELDS = "'f.Term.Constant', 'f.Term.Term', 'f.Term.IsSimple', 'f.Term.IsBlob', 'f.Term.owner_', 'f.Term.pos_'"
ALIAS_FIELDS = "'dh.S.TR_SE', 'dv.S.TR_SE', 'dk', 'len.S', 'el.S'"
FX_REQ = [
    ('xr_is_the_only_XR', "all(implies(self.Parent.SectorList[j].Code == 'XR', self.Parent.SectorList[j] is %s) for j in range(0, len(self.Parent.SectorList)))" % XRS),
    ('numeraire_position_exists', "has(self.EquationBlock.Equations, 'NET_NUMERAIRE') and allocated(%s) and eq_inv(%s)" % (NUM, NUM)),
]

XR0 = 'xr_sector(self)'
CODE = "local + '_' + foreign"
P.verify(fn(
    'sfc_models.external.ExternalSector.GetCrossRate',
    args=dict(self=Ref('ExternalSector'), local=STR, foreign=STR), returns=STR,
    requires=[('xr_is_the_only_XR', "all(implies(self.SectorList[j].Code == 'XR', self.SectorList[j] is %s) for j in range(0, len(self.SectorList)))" % XR0),
              ('full_code_is_plain', "not ('__' in %s.FullCode)" % XR0),
              ('currency_codes_are_plain', "not ('__' in local + '_' + foreign) and plain_name(local + '_' + foreign)")],
    modifies=['len.*', 'el.*', 'dh.S.R', 'dv.S.R', 'dh.S.TR_SE', 'dv.S.TR_SE', 'dk', 'tyof', 'f.Equation.*', 'f.Term.*'],
    ensures=[('names_the_cross_rate_variable', "result == (%s.FullCode + '__' + %s if %s.FullCode != '' else placeholder(%s.ID, %s))" % (XR0, CODE, XR0, XR0, CODE)),
             ('variable_exists', "has(%s.EquationBlock.Equations, %s)" % (XR0, CODE)),
             ('defined_as_local_over_foreign_when_created',
              "implies(not old(has(%s.EquationBlock.Equations, %s)), "
              "len(%s.EquationBlock.Equations[%s].TermList) == 1 and %s.EquationBlock.Equations[%s].TermList[0].IsBlob and "
              "%s.EquationBlock.Equations[%s].TermList[0].Term == nospace(local + '/' + foreign))" % ((XR0, CODE) * 4)),
             ('other_equations_kept', "all(implies(s != %s, has(%s.EquationBlock.Equations, s) == old(has(%s.EquationBlock.Equations, s)) and "
                                      "%s.EquationBlock.Equations[s] is old(%s.EquationBlock.Equations[s])) for s in strings())" % (CODE, XR0, XR0, XR0, XR0)),
             ('existing_objects_untouched', "old_objects_unchanged_except_dict(%s.EquationBlock.Equations, mod_of(%s).Aliases)" % (XR0, XR0))],
    raises=[RaisesSpec('KeyError', when="not any(self.SectorList[j].Code == 'XR' for j in range(0, len(self.SectorList)))", iff=True)],
))

def steps(*pairs):
    return '\n'.join('_assert(%r, %r)' % (f, label) for (label, f) in pairs)


SEND_CUR = 'source_sector.CurrencyZone.Currency'
ES = eqn(SEND_CUR)
P.verify(fn(
    'sfc_models.external.ForexTransations._SendMoney',
    args=dict(self=Ref('Sector'), source_sector=Ref('Sector'), variable_name=STR),
    requires=FX_REQ + [
        ('currency_position_exists', "has(self.EquationBlock.Equations, 'NET_' + %s) and allocated(%s) and eq_inv(%s) and eq_sep(%s, %s)" % (SEND_CUR, ES, ES, ES, NUM)),
    ],
    old_defs=[('amount', FULLNAME), ('xr', XRNAME % (SEND_CUR, SEND_CUR)), ('cur', SEND_CUR)],
    # (ghost code is attached to the currency-leg call whatever the locals are called)
    ghost_after=[(r"re:self\.EquationBlock\['NET_' \+ \w+\]\.AddTerm\('\+' \+ variable_name\)", steps(
        ('positions_kept_by_currency_leg', '%s is old(%s) and %s is old(%s) and %s.TermList is old(%s.TermList) and %s.TermList is old(%s.TermList)' % (ES, ES, NUM, NUM, ES, ES, NUM, NUM)),
        ('invariants_after_currency_leg', 'eq_inv(%s) and eq_inv(%s)' % (ES, NUM)),
        ('values_after_currency_leg', "Den(%s) == old(Den(%s)) + V(nospace('+' + old(%s))) and Den(%s) == old(Den(%s))" % (ES, ES, FULLNAME, NUM, NUM))) + '\n_snapshot("H1")')],
    ensures=[
        ('currency_position_gains_the_amount', "Den(%s) == old(Den(%s)) + V(nospace('+' + amount))" % (eqn('cur'), eqn('cur'))),
        ('numeraire_position_loses_amount_times_rate', "Den(%s) == old(Den(%s)) + V(nospace('-' + amount + '*' + xr))" % (NUM, NUM)),
        ('position_objects_kept', "%s is old(%s) and %s is old(%s) and eq_inv(%s) and eq_inv(%s)" % (eqn('cur'), eqn('cur'), NUM, NUM, eqn('cur'), NUM)),
        ('only_term_lists_and_aliases_written', "heap_unchanged_except('tyof', 'len.R', 'el.R', %s, %s)" % (TERM_FIELDS, ALIAS_FIELDS)),
    ],
    raises=[RaisesSpec('KeyError', when='True'), RaisesSpec('ValueError', when='True'),
            RaisesSpec('SyntaxError', when='True'), RaisesSpec('LogicError', when='True'), RaisesSpec('NotImplementedError', when='True')],
))

SRC = 'source_sector.CurrencyZone.Currency'
TGT = 'target_sector.CurrencyZone.Currency'
CROSS = "((%s.FullCode + '__' + %s + '_' + %s) if %s.FullCode != '' else placeholder(%s.ID, %s + '_' + %s))" % (XRS, SRC, TGT, XRS, XRS, SRC, TGT)
ET = eqn(TGT)
KEPT = '%s is old(%s) and %s is old(%s) and %s.TermList is old(%s.TermList) and %s.TermList is old(%s.TermList)' % (ET, ET, NUM, NUM, ET, ET, NUM, NUM)
INV2 = 'eq_inv(%s) and eq_inv(%s)' % (ET, NUM)


RECEIVE_GHOST = [
    (r"re:\w+ = self\.Parent\.GetCrossRate\(\w+, \w+\)", steps(
        ('positions_kept_by_cross_rate_lookup', KEPT),
        ('ownership_kept_by_cross_rate_lookup', 'eq_own(%s) and eq_own(%s)' % (ET, NUM)),
        ('invariants_kept_by_cross_rate_lookup', INV2),
        ('values_kept_by_cross_rate_lookup', 'Den(%s) == old(Den(%s)) and Den(%s) == old(Den(%s))' % (ET, ET, NUM, NUM)))),
    (r"re:self\.EquationBlock\['NET_' \+ \w+\]\.AddTerm\('-' \+ \w+\)", steps(
        ('positions_kept_by_currency_leg', KEPT),
        ('invariants_after_currency_leg', INV2),
        ('values_after_currency_leg', "Den(%s) == old(Den(%s)) + V(nospace('-' + old(%s) + '*' + old(%s))) and Den(%s) == old(Den(%s))" % (ET, ET, FULLNAME, CROSS, NUM, NUM)))),
    (r"re:\w+ = '\+\{0\}\*\{1\}'\.format\(variable_name, self\.Parent\['XR'\]\.GetVariableName\(\w+\)\)", steps(
        ('positions_kept_by_rate_lookup', KEPT),
        ('invariants_kept_by_rate_lookup', INV2),
        ('values_kept_by_rate_lookup', "Den(%s) == old(Den(%s)) + V(nospace('-' + old(%s) + '*' + old(%s))) and Den(%s) == old(Den(%s))" % (ET, ET, FULLNAME, CROSS, NUM, NUM))) + '\n_snapshot("H1")'),
    (r"re:self\.EquationBlock\['NET_NUMERAIRE'\]\.AddTerm\(\w+\)", steps(
        ('currency_position_kept_by_numeraire_leg', "Den(%s) == at(H1, Den(%s))" % (ET, ET)))),
]

P.verify(fn(
    'sfc_models.external.ForexTransations._ReceiveMoney',
    args=dict(self=Ref('Sector'), target_sector=Ref('Sector'), source_sector=Ref('Sector'), variable_name=STR), returns=STR,
    requires=FX_REQ + [
        ('currency_position_exists', "has(self.EquationBlock.Equations, 'NET_' + %s) and allocated(%s) and eq_inv(%s) and eq_sep(%s, %s)" % (TGT, eqn(TGT), eqn(TGT), eqn(TGT), NUM)),
        ('xr_full_code_is_plain', "not ('__' in %s.FullCode)" % XRS),
        ('currency_codes_are_plain', "not ('__' in %s + '_' + %s) and plain_name(%s + '_' + %s)" % (SRC, TGT, SRC, TGT)),
        ('fx_and_xr_blocks_are_separate', "self.EquationBlock.Equations is not %s.EquationBlock.Equations and self.EquationBlock.Equations is not mod_of(%s).Aliases" % (XRS, XRS)),
    ],
    old_defs=[('amount', FULLNAME), ('xr', XRNAME % (SRC, SRC)), ('cross', CROSS), ('tgt', TGT)],
    ghost_after=RECEIVE_GHOST,
    ensures=[
        ('receiver_term_is_amount_times_cross_rate', "result == amount + '*' + cross"),
        ('currency_position_loses_the_converted_amount', "Den(%s) == old(Den(%s)) + V(nospace('-' + amount + '*' + cross))" % (eqn('tgt'), eqn('tgt'))),
        ('numeraire_position_gains_amount_times_source_rate', "Den(%s) == old(Den(%s)) + V(nospace('+' + amount + '*' + xr))" % (NUM, NUM)),
        ('position_objects_kept', "%s is old(%s) and %s is old(%s) and eq_inv(%s) and eq_inv(%s)" % (eqn('tgt'), eqn('tgt'), NUM, NUM, eqn('tgt'), NUM)),
        ('cross_rate_defined', "has(%s.EquationBlock.Equations, %s + '_' + tgt)" % (XRS, 'old(%s)' % SRC)),
    ],
    raises=[RaisesSpec('KeyError', when='True'), RaisesSpec('ValueError', when='True'),
            RaisesSpec('SyntaxError', when='True'), RaisesSpec('LogicError', when='True'), RaisesSpec('NotImplementedError', when='True')],
))

# ---- Model._GenerateRegisteredCashFlows -----------------------------------------------------------------------
FXS = "fx_sector(self)"


@specfn('fx_sector')
def fx_sector(ctx, model):
    """the FX sector found by self.ExternalSector['FX'] (see xr_sector)"""
    f = z3.Function('fx_sector_of', z3.IntSort(), z3.IntSort())
    return SV(Ty('ref', 'Sector'), f(model.t))


def ledger_ok(r):
    F, I = "%s.EquationBlock.Equations['F']" % r, "%s.EquationBlock.Equations['INC']" % r
    return ("has(%s.EquationBlock.Equations, 'F') and has(%s.EquationBlock.Equations, 'INC') and eq_inv(%s) and eq_inv(%s) and eq_sep(%s, %s)" % (r, r, F, I, F, I))


FXB = '%s.EquationBlock.Equations' % FXS
FXNUM = "%s['NET_NUMERAIRE']" % FXB
EXT = 'get(self.ExternalSector)'


def fx_pos(r):
    c = "'NET_' + %s.CurrencyZone.Currency" % r
    return ("has(%s, %s) and allocated(%s[%s]) and eq_inv(%s[%s]) and eq_sep(%s[%s], %s)" % (FXB, c, FXB, c, FXB, c, FXB, c, FXNUM))


def wf_flow(s_, t_):
    """well-formedness of what one registered flow touches: the ledgers of its two sectors and, with an external sector, the FX
    positions of their currencies and the layout of the external sector.  It is a precondition for every registered flow, and it is
    RE-ASSUMED for the current flow at the start of its iteration and after each booking call (listed as an assumption: booking
    functions keep the object invariants of the equations they do not touch; only the term lists of F / INC / NET_* are written)"""
    return ' and '.join('(%s)' % f for f in [
        ledger_ok(s_), ledger_ok(t_),
        "implies(self.ExternalSector is not None, "
        "all(implies(%s.SectorList[j].Code == 'FX', %s.SectorList[j] is %s) for j in range(0, len(%s.SectorList))) and %s.Parent is %s and "
        "all(implies(%s.SectorList[j].Code == 'XR', %s.SectorList[j] is xr_sector(%s)) for j in range(0, len(%s.SectorList))) and "
        "not ('__' in xr_sector(%s).FullCode) and %s is not xr_sector(%s).EquationBlock.Equations and %s is not mod_of(xr_sector(%s)).Aliases and "
        "has(%s, 'NET_NUMERAIRE') and allocated(%s) and eq_inv(%s) and %s and %s and not ('__' in %s.CurrencyZone.Currency + '_' + %s.CurrencyZone.Currency) and plain_name(%s.CurrencyZone.Currency + '_' + %s.CurrencyZone.Currency))"
        % (EXT, EXT, FXS, EXT, FXS, EXT, EXT, EXT, EXT, EXT, EXT, FXB, EXT, FXB, EXT, FXB, FXNUM, FXNUM, fx_pos(s_), fx_pos(t_), s_, t_, s_, t_)])


FLOW = 'self.RegisteredCashFlows[%s]'
CROSSFLOW = '(%s[0].CurrencyZone is not %s[1].CurrencyZone)' % (FLOW, FLOW)
REFUSED = 'any(%s for j in range(0, len(self.RegisteredCashFlows)))' % (CROSSFLOW % ('j', 'j'))
SRC_F = "source_sector.EquationBlock.Equations['F']"
TGT_F = "target_sector.EquationBlock.Equations['F']"
REASSUME = "_assume(%r)" % wf_flow('source_sector', 'target_sector')
CROSS_TERM = ("implies(source_sector.CurrencyZone is not target_sector.CurrencyZone, term == full_variable_name + '*' + "
              "((xr_sector(%s.Parent).FullCode + '__' + source_sector.CurrencyZone.Currency + '_' + target_sector.CurrencyZone.Currency) "
              "if xr_sector(%s.Parent).FullCode != '' else placeholder(xr_sector(%s.Parent).ID, source_sector.CurrencyZone.Currency + '_' + target_sector.CurrencyZone.Currency)))" % (FXS, FXS, FXS))
FLOW_LIST_KEPT = ('self.RegisteredCashFlows is old(self.RegisteredCashFlows) and len(self.RegisteredCashFlows) == old(len(self.RegisteredCashFlows)) and '
                  'all(same(self.RegisteredCashFlows[j], old(self.RegisteredCashFlows[j])) for j in range(0, len(self.RegisteredCashFlows)))')
NO_CROSS_SO_FAR = 'implies(self.ExternalSector is None, all(not %s for j in range(0, i)))' % (CROSSFLOW % ('j', 'j'))
GRCF_GHOST = [
    ("is_cross_currency = source_sector.CurrencyZone != target_sector.CurrencyZone", REASSUME),
    ("full_variable_name = source_sector.GetVariableName(amount_variable)",
     steps(('full_name_is_qualified', "'__' in full_variable_name")) + '\n_snapshot("HS")'),
    ("source_sector.AddCashFlow('-' + full_variable_name, eqn=None, is_income=is_income_source)",
     steps(('source_pays_the_amount', "Den(%s) == at(HS, Den(%s)) + V(nospace('-' + full_variable_name))" % (SRC_F, SRC_F))) + '\n' + REASSUME),
    ("fx._SendMoney(source_sector, full_variable_name)", REASSUME),
    # after the two FX legs only the returned term, the loop invariants and the (re-assumed) well-formedness are used
    ("term = fx._ReceiveMoney(target_sector=target_sector, source_sector=source_sector, variable_name=full_variable_name)",
     "_cut('after_fx_legs', %r, %r, %r, %r)" % (CROSS_TERM, FLOW_LIST_KEPT, NO_CROSS_SO_FAR, '0 <= i and i < len(self.RegisteredCashFlows)') + '\n' + REASSUME),
    ("if is_cross_currency:", '_snapshot("HT")'),
    ("target_sector.AddCashFlow(term, eqn=None, is_income=is_income_dest)",
     steps(('target_receives_the_term', "Den(%s) == at(HT, Den(%s)) + V(nospace(term))" % (TGT_F, TGT_F)),
           ('same_zone_term_is_the_amount', "implies(source_sector.CurrencyZone is target_sector.CurrencyZone, term == '+' + full_variable_name)"),
           ('cross_zone_term_is_amount_times_cross_rate', CROSS_TERM))),
]
P.verify(fn(
    'sfc_models.models.Model._GenerateRegisteredCashFlows',
    args=dict(self=Ref('Model')),
    hints={'strip_rich': True},
    # the well-formedness precondition "for every registered flow: wf_flow(source, target) when its turn comes" is stated where it is
    # used, as the ghost assumption at the start of each iteration (see wf_flow)
    requires=[],
    loops={0: LoopSpec(header='for (source_sector, target_sector, amount_variable, is_income_source, is_income_dest) in self.RegisteredCashFlows', index='i',
                       modifies=['len.*', 'el.*', 'dh.*', 'dv.*', 'dk', 'tyof', 'f.Equation.*', 'f.Term.*'], invariants=[
        ('bounds', '0 <= i and i <= len(self.RegisteredCashFlows)'),
        ('flow_list_kept', 'self.RegisteredCashFlows is old(self.RegisteredCashFlows) and len(self.RegisteredCashFlows) == old(len(self.RegisteredCashFlows)) and '
                           'all(same(self.RegisteredCashFlows[j], old(self.RegisteredCashFlows[j])) for j in range(0, len(self.RegisteredCashFlows)))'),
        ('no_cross_flow_without_external_sector_so_far', 'implies(self.ExternalSector is None, all(not %s for j in range(0, i)))' % (CROSSFLOW % ('j', 'j'))),
    ])},
    ghost_after=GRCF_GHOST,
    ensures=[('no_cross_flow_without_external_sector', 'implies(self.ExternalSector is None, not %s)' % REFUSED)],
    raises=[RaisesSpec('LogicError', when='self.ExternalSector is None and %s' % REFUSED),
            RaisesSpec('KeyError', when='True'), RaisesSpec('ValueError', when='True'),
            RaisesSpec('SyntaxError', when='True'), RaisesSpec('NotImplementedError', when='True')],
))


# ---- pair lemma (real arithmetic) and the whole-sequence statement --------------------------------------------
def _pair_lemma():
    """one _SendMoney + one _ReceiveMoney of the same amount A (contracts above), read through T-STA and the cross-rate equation"""
    A, Xs, Xt, C = z3.Strings('A Xs Xt C')          # amount name, EXT_XR__src, EXT_XR__tgt, EXT_XR__src_tgt
    cat = lambda *xs: z3.Concat(*[z3.StringVal(x) if isinstance(x, str) else x for x in xs])
    sta = [V(cat('+', A)) == V(A),
           V(cat('-', A, '*', Xs)) == -(V(A) * V(Xs)),
           V(cat('+', A, '*', Xs)) == V(A) * V(Xs),
           V(cat('-', A, '*', C)) == -(V(A) * V(C)),
           V(cat(A, '*', C)) == V(A) * V(C)]
    cross = [V(Xt) != 0, V(C) == V(Xs) / V(Xt)]       # the equation GetCrossRate installs: src_tgt = src/tgt
    d_src = V(cat('+', A))                         # _SendMoney:    NET_src        += V('+' + amount)
    d_num1 = V(cat('-', A, '*', Xs))               #                NET_NUMERAIRE  += V('-' + amount + '*' + xr_src)
    d_tgt = V(cat('-', A, '*', C))                 # _ReceiveMoney: NET_tgt        += V('-' + amount + '*' + cross)
    d_num2 = V(cat('+', A, '*', Xs))               #                NET_NUMERAIRE  += V('+' + amount + '*' + xr_src)
    credit = V(cat(A, '*', C))                     #                returned term (what the receiver books)
    hy = sta + cross
    return [('numeraire_position_unchanged_by_a_pair', hy, d_num1 + d_num2 == 0),
            ('numeraire_value_of_currency_positions_unchanged_by_a_pair', hy, d_src * V(Xs) + d_tgt * V(Xt) + d_num1 + d_num2 == 0),
            ('receiver_credit_is_amount_times_rate_ratio', hy, credit == V(A) * V(Xs) / V(Xt)),
            ('receiver_credit_has_the_value_sent', hy, credit * V(Xt) == V(A) * V(Xs))]


P.lemma('send_receive_pair', _pair_lemma,
        'over the contracts of _SendMoney/_ReceiveMoney/GetCrossRate + T-STA: a pair leaves NET_NUMERAIRE and the numeraire value of all positions unchanged; credit = amount*XR_src/XR_tgt (nonlinear real arithmetic)')


def _sequence_lemma():
    """Z_n = numeraire value of all FX positions after n pairs; Z_0 = 0 (fresh positions), every pair adds 0  =>  Z_n = 0 (induction)"""
    Z = z3.Function('Z_after', z3.IntSort(), z3.RealSort())
    N = z3.Function('NUM_after', z3.IntSort(), z3.RealSort())
    n = z3.Int('n')
    return [('base', [Z(0) == 0, N(0) == 0], z3.And(Z(0) == 0, N(0) == 0)),
            ('step', [n >= 0, Z(n) == 0, N(n) == 0, Z(n + 1) == Z(n) + 0, N(n + 1) == N(n) + 0], z3.And(Z(n + 1) == 0, N(n + 1) == 0))]


P.lemma('positions_net_to_zero_after_any_number_of_pairs', _sequence_lemma,
        'by induction over the sequence of send/receive pairs (pair lemma at each step)')
P.assume('Model._GenerateRegisteredCashFlows: well-formedness of the ledgers / FX positions touched by the current flow is assumed at the start of '
         'each iteration and re-assumed after each booking call (wf_flow); Market._GenerateMultiSupply and InternationalGold.SetGoldPurchases '
         'are not under contract (bounded: dyn/C07.py)')
P.bound('fx-models', 'dyn/C07.py', 'fx', 'generated 2-3 currency models with non-unit, time-varying rates, registered cross-zone flows, cross-zone '
        'suppliers and gold purchases, solved: 12 (quick) / 150 (thorough)',
        'whole-model statement: NET positions valued at the period rates sum to zero, NET_NUMERAIRE is zero, receiver credit = amount*XR_src/XR_tgt; '
        'LogicError without an external sector')
