"""
C08 - Results do not depend on the order in which sectors are declared.
"""
from pyvc.types import *
from pyvc.spec import fn, cls, RaisesSpec, LoopSpec, specfn
from pyvc.prop import Property
from . import common, lib, den, equation_contracts, sector_contracts  # noqa
from . import C04 as _c04  # noqa
from . import C18 as _c18  # noqa

P = Property('C08', 'other',
             'Contracts on the real AST of the two places where declaration order could leak: FixedMarginBusiness.__init__ declares its labour demand at '
             'creation (so that a labour market generated earlier finds it), and Market._GenerateTermsLowLevel examines every sector of the zone list '
             'whatever its position (a sector is included iff it declares the demand variable when examined; nothing stops the scan early), over '
             'CurrencyZone.GetSectors (exactly the sectors of the zone). The whole-model statement (same solution for every permutation) is bounded.',
             'contract-based deductive verification: VCs generated from the real AST (pyvc), z3/cvc5; bounded permutation comparison',
             design_ref='DESIGN.md section 6, C08')
P.trust('contracts shared with C04 / C18 (see there)')
P.not_decided.append('series-level independence of the declaration order (TaxFlow, MoneyMarket, DepositMarket discovery loops, equation generation order): '
                     'bounded, dyn/C08.py')
P.replay_script = 'dyn/C08.py'

for _s in _c04.P.fns:
    if '_GenerateTermsLowLevel' in _s.name:
        P.verify(_s)
for _s in _c18.P.fns:
    if _s.name.endswith('FixedMarginBusiness.__init__') or _s.name.endswith('CurrencyZone.GetSectors'):
        P.verify(_s)
P.assume(*_c04.P.assumptions)
P.bound('permutations', 'dyn/C08.py', 'permutations', 'random economies with the sector declarations permuted: 20 (quick) / 400 (thorough) + all 720 '
        'permutations of model SIM (thorough)', 'series-level independence of the declaration order')
P.bound('catalogue', 'dyn/C08.py', 'catalogue', 'the two-dividend-payers topology under 3 fixed permutations', 'the same statement on the topology of finding F8 (repaired)')
