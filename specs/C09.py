"""
C09 - Textbook models obey their difference equations for any parameters.
"""
from pyvc.types import *
from pyvc.spec import fn, cls, RaisesSpec, LoopSpec, specfn
from pyvc.prop import Property
import z3
from . import common, lib, den, equation_contracts, sector_contracts  # noqa
from . import C18 as _c18  # noqa  (household constructors: the consumption function text)

P = Property('C09', 'other',
             'Contracts on the real AST of what carries the parameters and behavioural equations into the system: utils.format_parameter (the text written into an '
             'equation reads back as exactly the number given), BaseHousehold / Household / HouseholdWithExpectations.__init__ (consumption = AlphaIncome * '
             '(expected) AfterTax + AlphaFin * LAG_F, verified in C18). That the solved SIM, SIMEX1 and PC models and the hand-coded iterative SIM follow the '
             "book's recursions for arbitrary parameters is a statement about the numerical solution of the whole generated system: bounded, against "
             'independent closed forms.',
             'contract-based deductive verification: VCs generated from the real AST (pyvc), z3/cvc5; bounded comparison with closed-form recursions',
             design_ref='DESIGN.md section 6, C09')
P.trust('T-LIB: float(repr(x)) == x for every float x; float(text) is a function of the text', 'T-FMT: fmt % (x,) is a function of fmt and x')
P.not_decided.append('series-level agreement of SIM / SIMEX1 / PC and the iterative SIM with the closed-form recursions (tax on pre-tax income, wage bill, deposit interest at the '
                     'lagged rate on lagged holdings, money as residual asset): bounded, dyn/C09.py')
P.replay_script = 'dyn/C09.py'


@specfn('float_ok')
def float_ok(ctx, s):
    return mk_bool(z3.Function('py_float_ok', z3.StringSort(), z3.BoolSort())(s.t))


@specfn('float_val')
def float_val(ctx, s):
    return SV(FLOAT, z3.Function('py_float_val', z3.StringSort(), sort_of(FLOAT))(s.t))


@specfn('pct')
def pct(ctx, f, x):
    from pyvc import ops
    import re
    r = z3.Function('py_fmt_' + sortkey(FLOAT), z3.StringSort(), sort_of(FLOAT), z3.StringSort())(f.t, ops.to_float(x).t)
    f0 = z3.simplify(f.t)
    if z3.is_string_value(f0) and re.fullmatch(r'%[0-9]*\.?[0-9]*[fFeEgG]', f0.as_string()):
        # T-FMT: a single float conversion renders text that float() accepts
        ctx.side.append(z3.Function('py_float_ok', z3.StringSort(), z3.BoolSort())(r))
    return SV(STR, r)


FMT = P.verify(fn(
    'sfc_models.utils.format_parameter',
    args=dict(value=FLOAT, format_str=STR), returns=STR,
    requires=[('format_renders_a_number', 'float_ok(pct(format_str, value))')],
    ensures=[('reads_back_as_the_value', 'float_ok(result) and float_val(result) == value'),
             ('short_form_kept_when_exact', 'implies(float_val(pct(format_str, value)) == value, result == pct(format_str, value))'),
             ('nothing_written', 'heap_unchanged_except()')],
))
for _s in _c18.P.fns:
    if 'ousehold.__init__' in _s.name or 'HouseholdWithExpectations.__init__' in _s.name:
        P.verify(_s)
P.bound('textbook', 'dyn/C09.py', 'textbook', 'SIM, SIMEX1, PC builders and the iterative SIM with random parameters (2..6 decimals), paths and initial stocks: 24 (quick) / 400 (thorough)',
        'solved series equal the closed-form recursions at 1e-6')
