"""
C10 - Exogenous paths, initial conditions and horizon are honoured verbatim.
"""
import re
from pyvc.types import *
from pyvc.spec import fn, cls, RaisesSpec, LoopSpec, specfn
from pyvc.prop import Property
import z3
from . import common, lib, solver_model, solvestep as S  # noqa

P = Property('C10', 'proof',
             'Contracts on the real AST of EquationSolver._SolveStep / SolveStep / SolveEquation: each solved period appends exactly one point to '
             'every simultaneous, lagged and decorative series (the in-code length assertions are obligations), a lagged variable at k is its source '
             'at k-1, exogenous series and all earlier points are untouched, so after SolveEquation every series has horizon+1 points; the loop '
             'invariant of SolveEquation carries the readiness predicate from period to period. What SetInitialConditions installs at k=0 '
             '(exogenous slices, broadcast scalars, initial conditions, rejections) is an assumed contract here, checked bounded.',
             'contract-based deductive verification: VCs generated from the real AST (pyvc), z3/cvc5',
             design_ref='DESIGN.md section 6, C10')
P.trust('assumed contract of EquationSolver.SetInitialConditions (k=0 installation: one point per non-exogenous variable, horizon+1 points per exogenous '
        'one, distinct series objects) - its body evaluates user text with eval into dynamically typed values; checked bounded in dyn/C10.py',
        'T-EVAL (see C02); float model: extended reals, no rounding')
P.not_decided.append('verbatim installation at k=0 (exogenous list / tuple / string / scalar broadcast, initial condition = k=0 value, too-short or '
                     'unevaluable inputs rejected, time axis = k) and the model-side text emission: bounded, dyn/C10.py')
P.replay_script = 'dyn/C10.py'


def at(expr, what):
    return re.sub(r'\bstep\b', what, expr)


P.verify(S.solvestep_contract())
P.verify(S.solvestep_wrapper_contract())

def LENS(e):
    return (' and '.join(S.allj(L, 'has(self.TimeSeries, %s[j][0]) and len(self.TimeSeries[%s[j][0]]) == %s' % (L, L, e)) for L in (S.ENDO, S.LAG, S.DEC)) +
            ' and ' + S.allj(S.EXO, 'has(self.TimeSeries, %s[j][0]) and len(self.TimeSeries[%s[j][0]]) >= self.Parser.MaxTime + 1' % (S.EXO, S.EXO)))


# every lag source is the name of a simultaneous, decorative, lagged or exogenous variable (well-formed block)
SRC = S.allj(S.LAG, ' or '.join('any(%s[a][0] == %s[j][1] for a in range(0, len(%s)))' % (L, S.LAG, L) for L in (S.ENDO, S.DEC, S.LAG, S.EXO)))

EXO_FULL = S.allj(S.EXO, 'len(self.TimeSeries[%s[j][0]]) >= self.Parser.MaxTime + 1' % S.EXO)

SETIC = fn(
    'sfc_models.equation_solver.EquationSolver.SetInitialConditions',
    args=dict(self=Ref('EquationSolver')),
    float_mode='xreal',
    modifies=['f.EquationSolver.TimeSeries', 'len.*', 'el.*', 'dh.*', 'dv.*', 'dk', 'tyof'],
    ensures=[('k0_installed', LENS('1')), ('distinct', S.DISTINCT), ('lag_sources_are_variables', SRC),
             ('fields_kept', "heap_unchanged_except('tyof', 'len.*', 'el.*', 'dh.*', 'dv.*', 'dk', 'f.EquationSolver.TimeSeries')"),
             ('horizon_kept', 'self.Parser.MaxTime == old(self.Parser.MaxTime) and self.Parser is old(self.Parser)')],
    raises=[RaisesSpec('ValueError', when='True')],
)
EXTRACT = fn(
    'sfc_models.equation_solver.EquationSolver.ExtractVariableList',
    args=dict(self=Ref('EquationSolver')),
    modifies=['f.EquationSolver.VariableList', 'len.S', 'el.S', 'tyof'],
    ensures=[('only_the_variable_list', "heap_unchanged_except('tyof', 'len.S', 'el.S', 'f.EquationSolver.VariableList') and lists_unchanged()")],
)

P.verify(fn(
    'sfc_models.equation_solver.EquationSolver.SolveEquation',
    args=dict(self=Ref('EquationSolver')),
    float_mode='xreal',
    requires=[('steady_state_search_off', 'not self.ParameterSolveInitialSteadyState'), ('not_traced', 'is_none(self.TraceStep)'),
              ('horizon_nonneg', 'self.Parser.MaxTime >= 0'),
              ('cap_nonneg', 'self.MaxIterations >= 0'),
              ('tolerance_parameter_finite', 'is_none(self.ParameterErrorTolerance) or isfinite(get(self.ParameterErrorTolerance))')],
    loops={0: LoopSpec(header='for step in range(1, self.Parser.MaxTime + 1)', index='p', modifies=['len.X', 'el.X', 'tyof'], invariants=[
        ('bounds', '1 <= p and p <= self.Parser.MaxTime + 1'),
        ('p_points_so_far', LENS('p')),
        ('distinct', S.DISTINCT),
        ('lag_sources_are_variables', SRC),
        ('equations_and_settings_kept', "heap_unchanged_except('tyof', 'len.*', 'el.*', 'dh.*', 'dv.*', 'dk', 'f.EquationSolver.TimeSeries', 'f.EquationSolver.VariableList')"),
    ])},
    ensures=[('equations_horizon_and_settings_kept', "heap_unchanged_except('tyof', 'len.*', 'el.*', 'dh.*', 'dv.*', 'dk', 'f.EquationSolver.TimeSeries', 'f.EquationSolver.VariableList')"),
             ('every_series_has_horizon_plus_one_points',
              'implies(self.Parser.MaxTime >= 0, ' + ' and '.join(S.allj(L, 'len(self.TimeSeries[%s[j][0]]) == self.Parser.MaxTime + 1' % L) for L in (S.ENDO, S.LAG, S.DEC)) +
              ' and ' + EXO_FULL + ')'),
             ('lagged_is_source_one_period_earlier',
              S.allj(S.LAG, 'all(implies(1 <= q, same(self.TimeSeries[%s[j][0]][q], self.TimeSeries[%s[j][1]][q - 1])) for q in range(1, self.Parser.MaxTime + 1))' % (S.LAG, S.LAG)),
              {'needs': ['__never__']})],
    raises=[RaisesSpec('ValueError', when='True'), RaisesSpec('NameError', when='True'), RaisesSpec('OtherError', when='True')],
    only_raises=True,
))

P.bound('verbatim', 'dyn/C10.py', 'verbatim',
        'random blocks: horizons 0..6 (parser and solver-side), exogenous as list / tuple / string expression / scalar, too short / unevaluable ones, '
        'initial conditions on simultaneous / lagged / decorative / constant variables, with and without a user time axis; 300 (quick) / 6000 (thorough)',
        'k=0 installation by SetInitialConditions and the end-to-end statement (series lengths, verbatim exogenous / initial values, lags, time axis, rejections)')
