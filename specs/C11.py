"""
C11 - Unsolvable or invalid input fails loudly and in bounded work.
"""
from pyvc.types import *
from pyvc.spec import fn, cls, RaisesSpec, LoopSpec, specfn
from pyvc.prop import Property
import z3
from . import common, lib, solver_model, solvestep as S, sector_contracts  # noqa

P = Property('C11', 'proof',
             'Contract on the real AST of EquationSolver._SolveStep: the iteration loop has the variant MaxIterations + 1 - num_tries (at most '
             'cap+1 sweeps), the only exceptions that leave it are ValueError (ConvergenceError is one), NameError or another error of the '
             'user\'s expression - never a raw ZeroDivisionError / OverflowError / KeyError / IndexError / AssertionError - and on every '
             'exceptional exit no list or dict of the solver has been written (periods already solved intact, equal length). Rejections: '
             'duplicate country / sector codes, "__" in local names, no / ambiguous supplier raise before any state is changed. Also verified here because '
             'every other module relies on it: Equation.__init__ for a term list and the whole of Sector.AddVariable (defines exactly that variable as the '
             'given blob, touches no other object) for identifier-shaped names.',
             'contract-based deductive verification: VCs generated from the real AST (pyvc), z3/cvc5',
             design_ref='DESIGN.md section 6, C11')
P.trust('T-EVAL (see C02): the exceptions eval may raise are ZeroDivisionError, ValueError, OverflowError, NameError or another error',
        'float model: extended reals with overflow saturation at DBL_MAX, no rounding')
P.not_decided.append('"a sup-norm contraction with factor <= 0.8 is solved within the default cap" (a Banach-type argument over eval): bounded, dyn/C02.py loud')
P.not_decided.append('reserved / shadowing variable names (ValidateInputs against keyword.kwlist, dir(builtins), dir(math), k) and cross-currency flows '
                     'without an external sector: bounded in dyn/C11.py, not discharged')
P.replay_script = 'dyn/C02.py'

P.verify(S.solvestep_contract())

# ---- SolveStep (not traced): what callers (C15) rely on --------------------------------------------------------
P.verify(S.solvestep_wrapper_contract())

# ---- duplicate codes ------------------------------------------------------------------------------------------
COUNTRY_HAS = 'any(self.CountryList[j].Code == item for j in range(0, len(self.CountryList)))'
P.verify(fn(
    'sfc_models.models.Model.__getitem__',
    args=dict(self=Ref('Model'), item=STR), returns=Ref('Country'),
    loops={0: LoopSpec(header='for obj in self.CountryList', index='i', modifies=[], invariants=[
        ('bounds', '0 <= i and i <= len(self.CountryList)'),
        ('no_earlier_match', 'all(self.CountryList[j].Code != item for j in range(0, i))')])},
    ensures=[('found', 'result.Code == item and any(self.CountryList[j] is result for j in range(0, len(self.CountryList)))'),
             ('nothing_written', 'heap_unchanged_except()')],
    raises=[RaisesSpec('KeyError', when='not ' + COUNTRY_HAS, iff=True, ensures=[('nothing_written', 'heap_unchanged_except()')])],
))
fn('sfc_models.models.Model._FitIntoCurrencyZone', args=dict(self=Ref('Model'), country=Ref('Country')), returns=Ref('CurrencyZone'),
   modifies=['*'], raises=[RaisesSpec('Exception', when='True')])        # not needed for the rejection clause: arbitrary effect

P.verify(fn(
    'sfc_models.models.Model._AddCountry',
    args=dict(self=Ref('Model'), country=Ref('Country')),
    raises=[RaisesSpec('LogicError', when='any(self.CountryList[j].Code == country.Code for j in range(0, len(self.CountryList)))', iff=True,
                       ensures=[('rejected_before_anything_is_changed', 'heap_unchanged_except()')])],
    only_raises=False,
))

SECTOR_HAS = 'any(self.SectorList[j].Code == item for j in range(0, len(self.SectorList)))'
P.verify(fn(
    'sfc_models.models.Country.__getitem__',
    args=dict(self=Ref('Country'), item=STR), returns=Ref('Sector'),
    loops={0: LoopSpec(header='for obj in self.SectorList', index='i', modifies=[], invariants=[
        ('bounds', '0 <= i and i <= len(self.SectorList)'),
        ('no_earlier_match', 'all(self.SectorList[j].Code != item for j in range(0, i))')])},
    ensures=[('found', 'result.Code == item and any(self.SectorList[j] is result for j in range(0, len(self.SectorList)))'),
             ('nothing_written', 'heap_unchanged_except()')],
    raises=[RaisesSpec('KeyError', when='not ' + SECTOR_HAS, iff=True, ensures=[('nothing_written', 'heap_unchanged_except()')])],
))

P.verify(fn(
    'sfc_models.models.Country._AddSector',
    args=dict(self=Ref('Country'), sector=Ref('Sector')),
    ensures=[('appended', 'len(self.SectorList) == old(len(self.SectorList)) + 1 and self.SectorList[len(self.SectorList) - 1] is sector and '
                          'all(self.SectorList[j] is old(self.SectorList[j]) for j in range(0, old(len(self.SectorList))))'),
             ('only_the_sector_list_written', "heap_unchanged_except('len.R', 'el.R') and lists_unchanged_but(self.SectorList)")],
    raises=[RaisesSpec('LogicError', when='any(self.SectorList[j].Code == sector.Code for j in range(0, len(self.SectorList)))', iff=True,
                       ensures=[('rejected_before_anything_is_changed', 'heap_unchanged_except()')])],
))

# ---- "__" in a local variable name ------------------------------------------------------------------------------
from . import C06 as _c06  # noqa  (Equation.AddTerm contracts)
# ---- Equation(lhs, desc, [Term]) and the whole of AddVariable (what every other module uses as the contract of AddVariable) ------------------------
EQ_INIT = P.verify(fn(
    'sfc_models.equation.Equation.__init__', name='sfc_models.equation.Equation.__init__[terms]',
    args=dict(self=Ref('Equation'), lhs=STR, desc=STR, rhs=List(Ref('Term'))),
    requires=[('plain_name', "not ('#' in lhs) and not ('=' in lhs)"),
              ('one_blob_or_products', 'len(rhs) == 1 and rhs[0].IsBlob and rhs[0].Constant == 1.0'),
              ('the_new_object_owns_nothing_yet', 'True')],
    modifies=['f.Equation.*', 'f.Term.*', 'len.R', 'el.R', 'tyof'],
    loops={0: LoopSpec(header='for t in rhs', index='i', modifies=['len.R', 'el.R', 'f.Term.*', 'tyof'], invariants=[
        ('bounds', '0 <= i and i <= len(rhs)'),
        ('argument_list_kept', 'len(rhs) == 1 and rhs is not self.TermList and unchanged(rhs) and rhs[0].IsBlob and rhs[0].Constant == 1.0 and rhs[0].Term == old(rhs[0].Term)'),
        ('own_fresh_term_list', 'fresh(self.TermList) and eq_inv(self) and len(self.TermList) == i and self.LeftHandSide == lhs and self.Description == desc'),
        ('copied_so_far', 'implies(i == 1, fresh(self.TermList[0]) and self.TermList[0].IsBlob and self.TermList[0].Constant == 1.0 and self.TermList[0].Term == old(rhs[0].Term))'),
        ('old_lists_untouched', 'lists_unchanged()'),
        ('only_this_equation_written', "fields_unchanged_but(self, 'Equation.LeftHandSide', 'Equation.Description', 'Equation.TermList')"),
    ])},
    ensures=[('named', 'self.LeftHandSide == lhs and self.Description == desc'),
             ('one_copied_blob', 'fresh(self.TermList) and len(self.TermList) == 1 and fresh(self.TermList[0]) and self.TermList[0].IsBlob and '
                                 'self.TermList[0].Constant == 1.0 and self.TermList[0].Term == old(rhs[0].Term)'),
             ('invariant', 'eq_inv(self)'),
             ('old_lists_untouched', 'lists_unchanged()'),
             ('only_this_equation_written', "fields_unchanged_but(self, 'Equation.LeftHandSide', 'Equation.Description', 'Equation.TermList')")],
    raises=[],
))

fn('sfc_models.equation.EquationBlock.AddEquation', args=dict(self=Ref('EquationBlock'), eqn=Ref('Equation')), inline_always=True) if False else None
P.verify(sector_contracts.ADDVARIABLE)

# ---- markets with no or ambiguous supplier -----------------------------------------------------------------------
HIT = "(self.Parent.SectorList[%s].ID != self.ID and has(self.Parent.SectorList[%s].EquationBlock.Equations, 'SUP_' + self.Code))"
P.verify(fn(
    'sfc_models.sector.Market._SearchSupplier',
    args=dict(self=Ref('Market')), returns=Ref('Sector'),
    hints={('local', 'ret_value'): Opt(Ref('Sector'))},
    loops={0: LoopSpec(header='for sector in self.Parent.GetSectors()', index='i', modifies=[], invariants=[
        ('bounds', '0 <= i and i <= len(self.Parent.SectorList)'),
        ('unique_hit_so_far', 'implies(is_none(ret_value), all(not %s for q in range(0, i))) and '
                              'implies(not is_none(ret_value), any(u < i and get(ret_value) is self.Parent.SectorList[u] and %s and '
                              'all(implies(q != u, not %s) for q in range(0, i)) for u in range(0, len(self.Parent.SectorList))))' % (HIT % ('q', 'q'), HIT % ('u', 'u'), HIT % ('q', 'q')))])},
    ensures=[('the_unique_supplier', 'any(result is self.Parent.SectorList[u] and %s and all(implies(q != u, not %s) for q in range(0, len(self.Parent.SectorList))) '
                                     'for u in range(0, len(self.Parent.SectorList)))' % (HIT % ('u', 'u'), HIT % ('q', 'q'))),
             ('remembered', 'self.ResidualSupply is result'),
             ('only_that_field_written', "heap_unchanged_except('f.Market.ResidualSupply')")],
    raises=[RaisesSpec('LogicError', when='all(not %s for q in range(0, len(self.Parent.SectorList))) or '
                                          'any(any(u != w and %s and %s for w in range(0, len(self.Parent.SectorList))) for u in range(0, len(self.Parent.SectorList)))'
                                          % (HIT % ('q', 'q'), HIT % ('u', 'u'), HIT % ('w', 'w')), iff=True,
                       ensures=[('rejected_before_anything_is_changed', 'heap_unchanged_except()')])],
))

P.bound('loud-failures', 'dyn/C02.py', 'loud',
        'random sup-norm contractions (factor <= 0.8, 1..12 variables, constants <= 1e3, tolerances >= 1e-8, default cap): 60 (quick) / 1500 (thorough); '
        'sweep counts for caps {0,1,5,50} on expanding / oscillating / contractive equations',
        '"contraction => solved within the default cap" and a native count of the sweeps per period')
P.bound('failure-catalogue', 'dyn/C02.py', 'residual', 'the catalogue of dyn/C02.py (diverging, overflowing, zero-division, domain-error systems)',
        'native cross-check: failures are value / convergence errors and leave equal-length series')
P.bound('rejections', 'dyn/C11.py', 'rejections', 'catalogue of invalid model-level requests, each made 3 times on the same objects',
        'an invalid request is rejected every time it is made (no state left behind by a failed attempt turns a later attempt into an answer)')
