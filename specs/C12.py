"""
C12 - Equation-building arithmetic preserves value.

V(text) = value of an expression text under an arbitrary fixed valuation (uninterpreted).  What Python's
grammar contributes is isolated in the T-STA axioms below (signed-term algebra); everything else - which
pieces the code emits, in which order, with which sign and constant, what it drops - is discharged on the
real AST of Term.__str__, Equation.GetRightHandSide, Equation.AddTerm (C06) and create_equation_from_terms.
"""
from pyvc.types import *
from pyvc.spec import fn, cls, RaisesSpec, LoopSpec, specfn
from pyvc.prop import Property
from pyvc.state import arr
import z3
from . import common, lib, den, equation_contracts  # noqa
from .den import V, Mul, S, ArrC, ArrT, ArrE, term as sum_term
from .lib import IsProduct

P = Property('C12', 'proof',
             'Contracts on the real AST of Term.__str__ (sign, constant and blob rendering), Equation.GetRightHandSide (join of the '
             'renderings in list order, leading + dropped, empty sum rendered 0.0) and create_equation_from_terms (shape, argument '
             'list untouched), with AddTerm\'s additivity from C06; the value statement V(RHS) = V(lead) + sum of added terms follows '
             'by the join-sum lemma (explicit induction) from the T-STA axioms about Python\'s expression grammar.',
             'contract-based deductive verification: VCs generated from the real AST (pyvc), z3/cvc5',
             design_ref='DESIGN.md section 6, C12')
P.trust('T-STA (signed-term algebra, 7 axioms about CPython expression grammar): V(+p)=V(p), V(-p)=-V(p), V(+c*p)=c*V(p) (c>0), '
        'V(c*p)=c*V(p) (c<0, repr starts with -) for product-level p; V(chain ++ piece) = V(chain)+V(piece); dropping the leading + of a chain '
        'keeps its value; V("")=0 by convention (the code renders the empty sum as 0.0). Audited bounded in dyn/C06.py (terms, equation, join)',
        'T-FMT: str(float) is a function of the float; repr of a negative float starts with "-", of a positive one does not',
        'assumption (DESIGN F11): the opaque leading expression is additive-safe (no top-level comparison / boolean / conditional) and survives space squeezing',
        'contract of Term.__init__ on strings (see C06)')
P.replay_script = 'dyn/C06.py'

StrS = z3.StringSort()
RealS = z3.RealSort()
StrF = z3.Function('py_str_float_F', RealS, StrS)
Chain = z3.Function('is_chain', StrS, z3.BoolSort())                         # additive chain (may be empty)
Piece = z3.Function('is_piece', StrS, z3.BoolSort())                         # signed product piece or ''
J = z3.Function('py_join', StrS, z3.ArraySort(z3.IntSort(), StrS), z3.IntSort(), StrS)


def sv(s):
    return z3.StringVal(s)


def Render(c, t, b):
    """the text of a term with fields (Constant, Term, IsBlob): blob verbatim, zero vanishes, unit constants as a
    bare sign, other constants as sign + repr + '*'  (a defined term, not an uninterpreted symbol)"""
    return z3.If(b, t, z3.If(c == 0, sv(''), z3.If(c == 1, z3.Concat(sv('+'), t), z3.If(c == -1, z3.Concat(sv('-'), t),
                 z3.If(c > 0, z3.Concat(sv('+'), StrF(c), sv('*'), t), z3.Concat(StrF(c), sv('*'), t))))))


def render_axioms(c, t, b):
    """what a rendering is worth: instances of T-STA for one term (c, t, b) = (Constant, Term, IsBlob)"""
    prod = IsProduct(t)
    return [
        # value of the five shapes Term.__str__ can produce
        z3.Implies(prod, V(z3.Concat(sv('+'), t)) == V(t)),
        z3.Implies(prod, V(z3.Concat(sv('-'), t)) == -V(t)),
        z3.Implies(z3.And(prod, c > 0), V(z3.Concat(sv('+'), StrF(c), sv('*'), t)) == Mul(c, V(t))),
        z3.Implies(z3.And(prod, c < 0), V(z3.Concat(StrF(c), sv('*'), t)) == Mul(c, V(t))),
        V(sv('')) == 0,
        # pieces
        z3.Implies(prod, z3.And(Piece(z3.Concat(sv('+'), t)), Piece(z3.Concat(sv('-'), t)),
                                Piece(z3.Concat(sv('+'), StrF(c), sv('*'), t)), Piece(z3.Concat(StrF(c), sv('*'), t)))),
        Piece(sv('')), Chain(sv('')),
    ]


@specfn('render')
def render(ctx, t):
    """term_render(Constant, Term, IsBlob) of a Term object + the T-STA instances for it"""
    c = ctx.st.get_field(t, 'Constant')
    x = ctx.st.get_field(t, 'Term')
    b = ctx.st.get_field(t, 'IsBlob')
    ctx.side.extend(render_axioms(c.t, x.t, b.t))
    ctx.side.extend(den.mul_axioms())
    return SV(STR, Render(c.t, x.t, b.t))


@specfn('sta')
def sta(ctx, t):
    """T-STA instances for this term (always true; adds the instances as side facts)"""
    c = ctx.st.get_field(t, 'Constant')
    x = ctx.st.get_field(t, 'Term')
    b = ctx.st.get_field(t, 'IsBlob')
    ctx.side.extend(render_axioms(c.t, x.t, b.t))
    ctx.side.extend(den.mul_axioms())
    return mk_bool(True)


@specfn('strf')
def strf(ctx, x):
    return SV(STR, StrF(x.t))


P.verify(fn(
    'sfc_models.equation.Term.__str__',
    args=dict(self=Ref('Term')),
    returns=STR,
    requires=[('simple', 'self.IsSimple'),
              ('text_is_a_product', 'implies(not self.IsBlob, is_product(self.Term))'),
              ('blob_constant', 'implies(self.IsBlob, self.Constant == 1.0)')],
    assumes=[('T-FMT_sign_of_repr', "implies(self.Constant < 0.0, strf(self.Constant)[0:1] == '-')")],
    ensures=[
        ('value', 'sta(self) and V(result) == TV(self)'),              # from the statement: the rendering is worth Constant * V(text)
        ('blob_verbatim', 'implies(self.IsBlob, result == self.Term)'),
        ('zero_vanishes', "implies(not self.IsBlob and self.Constant == 0.0, result == '')"),
        ('sign_in_front', "implies(not self.IsBlob and self.Constant != 0.0, (result[0:1] == '+') == (self.Constant > 0.0) and (result[0:1] == '-') == (self.Constant < 0.0))"),
        ('rendering', 'result == render(self)'),                      # functional form used by GetRightHandSide
        ('nothing_written', "heap_unchanged_except()"),
    ],
))

# ---- Equation.AddTerm (contracts shared with C06: additivity of Den, invariant, copies of Term arguments) ----
from . import C06 as _c06  # noqa
P.verify(_c06.ADDTERM_STR)
P.verify(_c06.ADDTERM_TERM)
P.lemma('sum_lemmas', den.induction_obligations, 'sum-frame, sum-update-one, sum-append for SumTV, each by base + step for arbitrary arrays')

# ---- Equation.GetRightHandSide -----------------------------------------------------------------------------
ArrS = z3.ArraySort(z3.IntSort(), StrS)
ArrB = z3.ArraySort(z3.IntSort(), z3.BoolSort())
RenderArr = z3.Function('render_arr', ArrC, ArrT, ArrB, ArrE, ArrS)


def render_arr_axiom(C, T, B, E):
    j = z3.Int(fresh_name('ra'))
    e = z3.Select(E, j)
    return forall([j], z3.Select(RenderArr(C, T, B, E), j) == Render(z3.Select(C, e), z3.Select(T, e), z3.Select(B, e)),
                  patterns=[z3.Select(RenderArr(C, T, B, E), j)])


def Fin(s):
    """what GetRightHandSide does to the joined text: drop one leading '+', render the empty sum as 0.0"""
    d = z3.If(z3.PrefixOf(sv('+'), s), z3.SubString(s, 1, z3.Length(s) - 1), s)
    return z3.If(d == sv(''), sv('0.0'), d)


def elem_ok(C, T, B, E, j):
    """conditions on element j under which the join-sum lemma holds (all consequences of eq_inv + Term.__init__'s contract)"""
    e = z3.Select(E, j)
    c, t, b = z3.Select(C, e), z3.Select(T, e), z3.Select(B, e)
    return z3.And(z3.Implies(z3.Not(b), IsProduct(t)),
                  z3.Implies(b, z3.And(j == 0, c == 1, Chain(t))),        # F11: the opaque lead is additive-safe
                  z3.Implies(c < 0, z3.PrefixOf(sv('-'), StrF(c))),
                  z3.Implies(c > 0, z3.Not(z3.PrefixOf(sv('-'), StrF(c)))))


def sta_elem(C, T, B, E, j):
    e = z3.Select(E, j)
    return render_axioms(z3.Select(C, e), z3.Select(T, e), z3.Select(B, e))


def chain_axioms(s, q):
    """T-STA: appending a signed piece to a chain adds its value; result is a chain again"""
    return [z3.Implies(z3.And(Chain(s), Piece(q)), z3.And(Chain(z3.Concat(s, q)), V(z3.Concat(s, q)) == V(s) + V(q)))]


def join_unfold(R, n):
    """T-LIB: ''.join of n+1 strings is the join of the first n followed by the last; join of none is ''"""
    return [J(sv(''), R, z3.IntVal(0)) == sv(''),
            z3.Implies(n >= 0, J(sv(''), R, n + 1) == z3.Concat(J(sv(''), R, n), z3.Select(R, n)))]


def lemma_join_sum(C, T, B, E, n):
    R = RenderArr(C, T, B, E)
    j = z3.Int(fresh_name('lj'))
    hyp = z3.And(n >= 0, forall([j], z3.Implies(z3.And(0 <= j, j < n), elem_ok(C, T, B, E, j))))
    return z3.Implies(hyp, z3.And(Chain(J(sv(''), R, n)), V(J(sv(''), R, n)) == S(C, T, E, n)))


def join_sum_induction():
    C = z3.Const('jC', ArrC)
    T = z3.Const('jT', ArrT)
    B = z3.Const('jB', ArrB)
    E = z3.Const('jE', ArrE)
    n = z3.Int('jn')
    R = RenderArr(C, T, B, E)
    base_h = join_unfold(R, z3.IntVal(0)) + [S(C, T, E, z3.IntVal(0)) == 0, V(sv('')) == 0, Chain(sv(''))]
    out = [('join_sum/base', base_h, lemma_join_sum(C, T, B, E, z3.IntVal(0)))]
    e = z3.Select(E, n)
    step_h = (join_unfold(R, n) + [n >= 0, S(C, T, E, n + 1) == S(C, T, E, n) + sum_term(C, T, E, n),
                                   z3.Select(R, n) == Render(z3.Select(C, e), z3.Select(T, e), z3.Select(B, e)),
                                   lemma_join_sum(C, T, B, E, n), V(sv('')) == 0, Chain(sv(''))]
              + sta_elem(C, T, B, E, n) + den.mul_axioms()
              + chain_axioms(J(sv(''), R, n), z3.Select(R, n))
              + [z3.Concat(sv(''), z3.Select(T, e)) == z3.Select(T, e)])
    out.append(('join_sum/step', step_h, lemma_join_sum(C, T, B, E, n + 1)))
    return out


P.lemma('join_sum', join_sum_induction,
        'V("".join(renderings of the first n terms)) = SumTV(n) and the join is an additive chain, by induction on n from T-STA')


def arrays4(st, eq):
    C, T, E, n = den.arrays_of(st, eq)
    B = st.heap[st.field_family('Term', 'IsBlob')[0]]
    return C, T, B, E, n


@specfn('rhs_rendering')
def rhs_rendering(ctx, eq):
    """the text GetRightHandSide must produce: Fin(''.join(renderings in list order)), + the join-sum lemma instance"""
    C, T, B, E, n = arrays4(ctx.st, eq)
    R = RenderArr(C, T, B, E)
    joined = J(sv(''), R, n)
    ctx.side.append(render_arr_axiom(C, T, B, E))
    ctx.side.append(lemma_join_sum(C, T, B, E, n))
    ctx.side.extend(den.unfold(C, T, E, n))
    # T-STA: a chain keeps its value when its leading '+' is dropped; the literal 0.0 is worth 0; V('') = 0
    ctx.side.append(z3.Implies(z3.And(Chain(joined), z3.PrefixOf(sv('+'), joined)),
                               V(z3.SubString(joined, 1, z3.Length(joined) - 1)) == V(joined)))
    ctx.side.extend([V(sv('0.0')) == 0, V(sv('')) == 0])
    return SV(STR, Fin(joined))


@specfn('rhs_terms_ok')
def rhs_terms_ok(ctx, eq):
    """every term satisfies the side conditions of the join-sum lemma"""
    C, T, B, E, n = arrays4(ctx.st, eq)
    j = z3.Int(fresh_name('ok'))
    return mk_bool(forall([j], z3.Implies(z3.And(0 <= j, j < n), elem_ok(C, T, B, E, j)), patterns=[z3.Select(E, j)]))


GRHS = dict(
    args=dict(self=Ref('Equation')),
    returns=STR,
    requires=[('inv', 'eq_inv(self)'),
              ('terms_simple', 'all(self.TermList[j].IsSimple for j in range(0, len(self.TermList)))'),
              ('terms_are_products_or_a_safe_lead', 'rhs_terms_ok(self)')],
    hints={},
    ensures=[('rendering_in_list_order', 'result == rhs_rendering(self)'),
             ('never_empty', "result != ''"),
             ('value_is_the_signed_sum', 'result == rhs_rendering(self) and V(result) == Den(self)'),
             ('nothing_written', "heap_unchanged_except('tyof', 'len.S', 'el.S') and lists_unchanged()")],
)
P.verify(fn('sfc_models.equation.Equation.GetRightHandSide', **GRHS))

# ---- utils.create_equation_from_terms ------------------------------------------------------------------------
from pyvc import ops as _ops

SumV = z3.Function('SumV', ArrS, z3.IntSort(), RealS)      # sum of V(P[j]) for j < n


def npiece_term(s):
    st = _ops.Strip(s)
    first = z3.SubString(st, 0, 1)
    return z3.If(z3.Or(first == sv('+'), first == sv('-')), st, z3.Concat(sv('+'), st))


@specfn('npiece')
def npiece(ctx, s):
    """the normalised piece of one list entry: stripped, with an explicit sign"""
    ctx.side.extend(_ops.strip_facts(s.t))
    return SV(STR, npiece_term(s.t))


def lemma_chain_sum(Pa, n):
    j = z3.Int(fresh_name('cs'))
    hyp = z3.And(n >= 0, forall([j], z3.Implies(z3.And(0 <= j, j < n), Piece(z3.Select(Pa, j)))))
    return z3.Implies(hyp, z3.And(Chain(J(sv(''), Pa, n)), V(J(sv(''), Pa, n)) == SumV(Pa, n)))


def chain_sum_induction():
    Pa = z3.Const('cP', ArrS)
    n = z3.Int('cn')
    base_h = join_unfold(Pa, z3.IntVal(0)) + [SumV(Pa, z3.IntVal(0)) == 0, V(sv('')) == 0, Chain(sv(''))]
    step_h = (join_unfold(Pa, n) + [n >= 0, SumV(Pa, n + 1) == SumV(Pa, n) + V(z3.Select(Pa, n)), lemma_chain_sum(Pa, n),
                                    V(sv('')) == 0, Chain(sv(''))] + chain_axioms(J(sv(''), Pa, n), z3.Select(Pa, n)))
    return [('chain_sum/base', base_h, lemma_chain_sum(Pa, z3.IntVal(0))),
            ('chain_sum/step', step_h, lemma_chain_sum(Pa, n + 1))]


P.lemma('chain_sum', chain_sum_induction, 'V("".join(pieces)) = sum of V(piece) for signed pieces, by induction from T-STA')


@specfn('joined_value_is_sum')
def joined_value_is_sum(ctx, result, lst):
    """result == ''.join(NB) with NB[0] = npiece(t0) without its leading '+', NB[j] = npiece(tj); and, when every NB[j] is a
    signed product piece (an unsigned product in front counts: T-STA), V(result) == sum_j V(NB[j])"""
    old = ctx.entry
    E0 = old.list_elems(lst)
    n0 = old.list_len(lst)
    NB = z3.Const(fresh_name('NB'), ArrS)
    j = z3.Int(fresh_name('nj'))
    p0 = npiece_term(z3.Select(E0, 0))
    first = z3.If(z3.SubString(p0, 0, 1) == sv('+'), z3.SubString(p0, 1, z3.Length(p0) - 1), p0)
    facts = [forall([j], z3.Implies(j >= 1, z3.Select(NB, j) == npiece_term(z3.Select(E0, j))), patterns=[z3.Select(NB, j)]),
             z3.Select(NB, 0) == first,
             lemma_chain_sum(NB, n0)]
    facts.extend(_ops.strip_facts(z3.Select(E0, 0)))
    ctx.side.extend(facts)
    all_pieces = forall([j], z3.Implies(z3.And(0 <= j, j < n0), Piece(z3.Select(NB, j))))
    return mk_bool(z3.And(result.t == J(sv(''), NB, n0), z3.Implies(all_pieces, V(result.t) == SumV(NB, n0))))


P.verify(fn(
    'sfc_models.utils.create_equation_from_terms',
    args=dict(terms=List(STR)),
    returns=STR,
    loops={0: LoopSpec(header='for i in range(0, len(terms))', index='c', modifies=['len.S', 'el.S'], invariants=[
        ('bounds', '0 <= c and c <= len(terms)'),
        ('working_copy', 'fresh(terms) and len(terms) == old(len(terms))'),
        ('argument_untouched', 'lists_unchanged()'),
        ('normalised_so_far', 'all(terms[j] == npiece(old(terms[j])) for j in range(0, c))'),
        ('rest_as_given', 'all(terms[j] == old(terms[j]) for j in range(c, len(terms)))'),
    ])},
    ensures=[
        ('empty_list_empty_text', "implies(len(terms) == 0, result == '')"),
        ('caller_list_unchanged', 'unchanged(terms) and lists_unchanged()'),
        ('value_is_the_sum_of_the_pieces', 'implies(len(terms) > 0, joined_value_is_sum(result, terms))'),
    ],
    raises=[RaisesSpec('IndexError', when="any(terms[j].strip() == '' for j in range(0, len(terms)))",
                       ensures=[('caller_list_unchanged', 'unchanged(terms) and lists_unchanged()')])],
))

P.bound('term-strings', 'dyn/C06.py', 'terms', 'all strings of <= 4 (quick) / <= 5 (thorough) tokens over 12 tokens, exhaustive',
        'T-STA / T-TOK audit: contract of Term.__init__ on strings against CPython eval')
P.bound('equation-sequences', 'dyn/C06.py', 'equation', '9 leads x all AddTerm sequences of length <= 2 (quick) / <= 3 + 20000 random (thorough) over 14 terms',
        'T-STA audit end to end: eval(RHS) == lead + sum of added terms under two valuations')
P.bound('join-lists', 'dyn/C06.py', 'join', 'all lists of <= 2 (quick) / <= 3 (thorough) pieces over 12 pieces, exhaustive',
        'T-STA audit of create_equation_from_terms: value of the join and untouched argument')
