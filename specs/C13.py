"""
C13 - Name substitution is hygienic and simultaneous.

The three loops of utils (list_tokens, replace_token, replace_token_from_lookup) are verified over an ARBITRARY
token sequence (T-TOK supplies the sequence as an uninterpreted function of the text): what is handed to
untokenize is, element by element, the original token unless it is a NAME token equal to the target / a key of the
lookup.  One pass over the ORIGINAL tokens = simultaneous.  The wrappers on Term / Equation / EquationBlock apply
that function to every term text with the same lookup.  That the rewritten text means the same under the renamed
environment is T-EVAL (assumed; audited bounded in dyn/C13.py).
"""
from pyvc.types import *
from pyvc.spec import fn, cls, RaisesSpec, LoopSpec, specfn
from pyvc.prop import Property
import z3
from . import common, lib  # noqa

P = Property('C13', 'proof',
             'Contracts on the real AST of utils.list_tokens / replace_token / replace_token_from_lookup over an arbitrary token '
             'sequence (element-wise postconditions with loop invariants, unbounded length) and on the three ReplaceTokensFromLookup '
             'wrappers; discharged by z3. Value preservation under injective renaming is the T-EVAL axiom, audited bounded.',
             'contract-based deductive verification: VCs generated from the real AST (pyvc), z3/cvc5',
             design_ref='DESIGN.md section 6, C13')
P.trust('T-TOK: tokenize yields a finite sequence of (type, string, ...) tuples that is a function of the text; NAME tokens are exactly the '
        'identifiers/keywords; untokenize(...).decode() is a function of the (type, string) sequence and re-tokenises to it',
        'T-EVAL: eval is a function of the token sequence and the values of its NAME tokens; injective renaming of text and environment preserves it')
P.not_decided.append('value of the renamed expression under the renamed environment (T-EVAL): bounded audit dyn/C13.py')
P.replay_script = 'dyn/C13.py'

StrS, IntS = z3.StringSort(), z3.IntSort()
TokLen = z3.Function('tok_len', StrS, IntS)
TokNum = z3.Function('tok_num', StrS, IntS, IntS)
TokVal = z3.Function('tok_val', StrS, IntS, StrS)
NAME = z3.Int('tok_NAME')
CntName = z3.Function('count_names', StrS, IntS, IntS)       # number of NAME tokens among the first j tokens


@specfn('ntok')
def ntok(ctx, s):
    return SV(INT, TokLen(s.t))


@specfn('is_name')
def is_name(ctx, s, j):
    return mk_bool(TokNum(s.t, j.t) == NAME)


@specfn('tokval')
def tokval(ctx, s, j):
    return SV(STR, TokVal(s.t, j.t))


@specfn('toknum')
def toknum(ctx, s, j):
    return SV(INT, TokNum(s.t, j.t))


def cnt_axioms(s):
    """definition of count_names (unfolding triggered by the token it inspects) + monotonicity (lemma cnt_monotone)"""
    k = z3.Int(fresh_name('cn'))
    a, b = z3.Int(fresh_name('ca')), z3.Int(fresh_name('cb'))
    return [CntName(s, z3.IntVal(0)) == 0,
            forall([k], z3.Implies(k >= 0, CntName(s, k + 1) == CntName(s, k) + z3.If(TokNum(s, k) == NAME, 1, 0)), patterns=[TokNum(s, k)]),
            forall([k], z3.Implies(k >= 0, z3.And(CntName(s, k) >= 0, CntName(s, k) <= k)), patterns=[CntName(s, k)]),
            forall([a, b], z3.Implies(z3.And(0 <= a, a <= b), CntName(s, a) <= CntName(s, b)),
                   patterns=[z3.MultiPattern(CntName(s, a), CntName(s, b))])]


def cnt_lemmas():
    """bounds and monotonicity of count_names by induction on the upper index"""
    s = z3.String('ls')
    n, a = z3.Int('ln'), z3.Int('la')
    unfold_n = [n >= 0, CntName(s, n + 1) == CntName(s, n) + z3.If(TokNum(s, n) == NAME, 1, 0), CntName(s, z3.IntVal(0)) == 0]
    out = [('bounds/base', [CntName(s, z3.IntVal(0)) == 0], z3.And(CntName(s, z3.IntVal(0)) >= 0, CntName(s, z3.IntVal(0)) <= 0)),
           ('bounds/step', unfold_n + [CntName(s, n) >= 0, CntName(s, n) <= n], z3.And(CntName(s, n + 1) >= 0, CntName(s, n + 1) <= n + 1)),
           # monotone: for fixed a, induction on b = n
           ('monotone/base', [a >= 0], z3.Implies(a <= a, CntName(s, a) <= CntName(s, a))),
           ('monotone/step', unfold_n + [0 <= a, z3.Implies(a <= n, CntName(s, a) <= CntName(s, n))],
            z3.Implies(a <= n + 1, CntName(s, a) <= CntName(s, n + 1)))]
    return out


P.lemma('count_names', cnt_lemmas, 'bounds and monotonicity of the NAME-token count, by induction')


@specfn('names_before')
def names_before(ctx, s, j):
    """count of NAME tokens among tokens 0..j-1"""
    ctx.side.extend(cnt_axioms(s.t))
    return SV(INT, CntName(s.t, j.t))


TOKLOOP = 'for (toknum, tokval, _, _, _) in g'

P.verify(fn(
    'sfc_models.utils.list_tokens',
    args=dict(s=STR), returns=List(STR),
    hints={('empty_list', 'result'): STR},
    loops={0: LoopSpec(header=TOKLOOP, index='i', modifies=['len.S', 'el.S'], invariants=[
        ('bounds', '0 <= i and i <= ntok(s)'),
        ('token_list_kept', 'fresh(g) and fresh(result) and g is not result and len(g) == ntok(s) and '
                            'all(g[j][0] == toknum(s, j) and g[j][1] == tokval(s, j) for j in range(0, ntok(s)))'),
        ('frame', 'lists_unchanged() and dicts_unchanged()'),
        ('one_entry_per_name_token', 'len(result) == names_before(s, i)'),
        ('entries_in_order_of_appearance', 'all(implies(is_name(s, j), result[names_before(s, j)] == tokval(s, j)) for j in range(0, i))'),
    ])},
    ensures=[
        ('exactly_the_name_tokens', 'len(result) == names_before(s, ntok(s))'),
        ('in_order_of_appearance', 'all(implies(is_name(s, j), result[names_before(s, j)] == tokval(s, j)) for j in range(0, ntok(s)))'),
        ('fresh', 'fresh(result)'), ('nothing_else_written', 'lists_unchanged() and dicts_unchanged()'),
    ],
    raises=[RaisesSpec('TokenError', when='True', ensures=[('nothing_written', 'lists_unchanged()')])],
))

# ---- replace_token / replace_token_from_lookup -----------------------------------------------------------------
PAIR = Tup(INT, STR)
PairS = sort_of(PAIR)
Untok = z3.Function('py_untokenize', z3.ArraySort(IntS, PairS), IntS, StrS)
ArrPair = z3.ArraySort(IntS, PairS)
MapOne = z3.Function('map_one', StrS, StrS, StrS, ArrPair)                  # (text, target, replacement) -> token pairs
MapLk = z3.Function('map_lookup', StrS, z3.ArraySort(StrS, z3.BoolSort()), z3.ArraySort(StrS, StrS), ArrPair)


def mkpair(num, val):
    return PairS.constructor(0)(num, val)


def map_one_axiom(s, tgt, rep):
    j = z3.Int(fresh_name('mo'))
    hit = z3.And(TokNum(s, j) == NAME, TokVal(s, j) == tgt)
    return forall([j], z3.Select(MapOne(s, tgt, rep), j) == z3.If(hit, mkpair(NAME, rep), mkpair(TokNum(s, j), TokVal(s, j))),
                  patterns=[z3.Select(MapOne(s, tgt, rep), j)])


def map_lk_axiom(s, H, Vv):
    j = z3.Int(fresh_name('ml'))
    hit = z3.And(TokNum(s, j) == NAME, z3.Select(H, TokVal(s, j)))
    return forall([j], z3.Select(MapLk(s, H, Vv), j) == z3.If(hit, mkpair(NAME, z3.Select(Vv, TokVal(s, j))), mkpair(TokNum(s, j), TokVal(s, j))),
                  patterns=[z3.Select(MapLk(s, H, Vv), j)])


@specfn('renamed_one')
def renamed_one(ctx, s, tgt, rep):
    """untokenize of: every NAME token equal to `tgt` replaced by (NAME, rep), every other token kept"""
    ctx.side.append(map_one_axiom(s.t, tgt.t, rep.t))
    return SV(STR, Untok(MapOne(s.t, tgt.t, rep.t), TokLen(s.t)))


def lookup_arrays(st, d):
    kty, vty = st.dict_types(d)
    H = z3.Select(st.heap[st._dh(kty, vty)], d.t)
    Vv = z3.Select(st.heap[st._dv(kty, vty)], d.t)
    return H, Vv


@specfn('renamed')
def renamed(ctx, s, lookup):
    """untokenize of: every NAME token that is a key of `lookup` replaced by (NAME, lookup[token]) - all at once, decided on
    the ORIGINAL tokens - every other token kept"""
    H, Vv = lookup_arrays(ctx.st, lookup)
    ctx.side.append(map_lk_axiom(s.t, H, Vv))
    return SV(STR, Untok(MapLk(s.t, H, Vv), TokLen(s.t)))


def token_loop(elementwise):
    return {0: LoopSpec(header=TOKLOOP, index='i', modifies=['len.*', 'el.*'], invariants=[
        ('bounds', '0 <= i and i <= ntok(s)'),
        ('token_list_kept', 'fresh(g) and fresh(result) and g is not result and len(g) == ntok(s) and '
                            'all(g[j][0] == toknum(s, j) and g[j][1] == tokval(s, j) for j in range(0, ntok(s)))'),
        ('frame', 'lists_unchanged() and dicts_unchanged()'),
        ('one_pair_per_token', 'len(result) == i'),
        ('element_wise', elementwise),
    ])}


P.verify(fn(
    'sfc_models.utils.replace_token',
    args=dict(s=STR, target=STR, replacement=STR), returns=STR,
    hints={('empty_list', 'result'): PAIR},
    loops=token_loop('all(result[j] == ((NAME_, replacement) if (is_name(s, j) and tokval(s, j) == target) else (toknum(s, j), tokval(s, j))) for j in range(0, i))'),
    ensures=[('whole_name_tokens_only', 'result == renamed_one(s, target, replacement)'),
             ('nothing_written', 'lists_unchanged() and dicts_unchanged()')],
    raises=[RaisesSpec('TokenError', when='True', ensures=[('nothing_written', 'lists_unchanged()')])],
))

RTL = P.verify(fn(
    'sfc_models.utils.replace_token_from_lookup',
    args=dict(s=STR, lookup=Dict(STR, STR)), returns=STR,
    hints={('empty_list', 'result'): PAIR},
    loops=token_loop('all(result[j] == ((NAME_, lookup[tokval(s, j)]) if (is_name(s, j) and has(lookup, tokval(s, j))) else (toknum(s, j), tokval(s, j))) for j in range(0, i))'),
    ensures=[('simultaneous_whole_name_tokens_only', 'result == renamed(s, lookup)'),
             ('nothing_written', 'lists_unchanged() and dicts_unchanged()')],
    raises=[RaisesSpec('TokenError', when='not tok_ok(s)', iff=True, ensures=[('nothing_written', 'lists_unchanged() and dicts_unchanged()')])],
))


@specfn('tok_ok')
def tok_ok(ctx, s):
    f = z3.Function('tok_ok', StrS, z3.BoolSort())
    return mk_bool(f(s.t))

# ---- the three ReplaceTokensFromLookup wrappers ---------------------------------------------------------------
from . import den  # noqa  (eq_inv with ghost ownership)

TERM_RTFL = P.verify(fn(
    'sfc_models.equation.Term.ReplaceTokensFromLookup',
    args=dict(self=Ref('Term'), lookup=Dict(STR, STR)),
    requires=[('blob_or_simple', 'self.IsBlob or self.IsSimple')],
    modifies=['f.Term.Term'],
    ensures=[('text_renamed', 'self.Term == renamed(old(self.Term), lookup)'),
             ('only_this_text_written', "fields_unchanged_but(self, 'Term.Term')")],
    raises=[RaisesSpec('ValueError', when='not tok_ok(self.Term)', iff=True, ensures=[('nothing_written', "heap_unchanged_except()")])],
))

EQ_RTFL = P.verify(fn(
    'sfc_models.equation.Equation.ReplaceTokensFromLookup',
    args=dict(self=Ref('Equation'), lookup=Dict(STR, STR)),
    requires=[('own_terms', 'eq_own(self)'),
              ('terms_blob_or_simple', 'all(self.TermList[j].IsBlob or self.TermList[j].IsSimple for j in range(0, len(self.TermList)))')],
    modifies=['f.Term.Term'],
    loops={0: LoopSpec(header='for t in self.TermList', index='q', modifies=['f.Term.Term'], invariants=[
        ('bounds', '0 <= q and q <= len(self.TermList)'),
        ('renamed_so_far', 'all(self.TermList[j].Term == renamed(old(self.TermList[j].Term), lookup) for j in range(0, q))'),
        ('rest_as_before', 'all(self.TermList[j].Term == old(self.TermList[j].Term) for j in range(q, len(self.TermList)))'),
        ('only_own_terms_written', "heap_unchanged_except('f.Term.Term') and texts_unchanged_unless_owned_by(self)"),
    ])},
    ensures=[('every_term_renamed_with_the_same_lookup', 'all(self.TermList[j].Term == renamed(old(self.TermList[j].Term), lookup) for j in range(0, len(self.TermList)))'),
             ('only_own_terms_written', "heap_unchanged_except('f.Term.Term') and texts_unchanged_unless_owned_by(self)")],
    raises=[RaisesSpec('ValueError', when='any(not tok_ok(self.TermList[j].Term) for j in range(0, len(self.TermList)))',
                       ensures=[('only_own_terms_written', "heap_unchanged_except('f.Term.Term') and texts_unchanged_unless_owned_by(self)")])],
))


@specfn('texts_unchanged_unless_owned_by')
def texts_unchanged_unless_owned_by(ctx, eq):
    st, old = ctx.st, ctx.entry
    name = st.field_family('Term', 'Term')[0]
    now = st.heap[name]
    then = old.heap[name] if name in old.heap else __import__('pyvc.state', fromlist=['fam_init']).fam_init(name)
    O0 = old.heap[old.field_family('Term', 'owner_')[0]]
    r = z3.Int(fresh_name('r'))
    if now is then or z3.eq(now, then):
        return mk_bool(True)
    return mk_bool(forall([r], z3.Implies(z3.And(r > 0, r < old.alloc, z3.Select(O0, r) != eq.t), z3.Select(now, r) == z3.Select(then, r)),
                          patterns=[z3.Select(now, r)]))


@specfn('block_inv')
def block_inv(ctx, blk):
    """every equation of the block satisfies eq_inv (terms owned by it, hence disjoint between equations), is allocated, has
    blob-or-simple terms, and distinct names map to distinct Equation objects"""
    st = ctx.st
    d = st.get_field(blk, 'Equations')
    kty, vty = st.dict_types(d)
    H = z3.Select(st.heap[st._dh(kty, vty)], d.t)
    Dv = z3.Select(st.heap[st._dv(kty, vty)], d.t)
    k, k2 = z3.String(fresh_name('k')), z3.String(fresh_name('k2'))
    j = z3.Int(fresh_name('j'))
    eqr = z3.Select(Dv, k)
    TLf = st.heap[st.field_family('Equation', 'TermList')[0]]
    tl = z3.Select(TLf, eqr)
    n = z3.Select(st._len_arr(Ref('Term')), tl)
    E = z3.Select(st.heap[st.el_family(Ref('Term'))], tl)
    O, Pz = (st.heap[st.field_family('Term', f)[0]] for f in ('owner_', 'pos_'))
    B, Sm = (st.heap[st.field_family('Term', f)[0]] for f in ('IsBlob', 'IsSimple'))
    e = z3.Select(E, j)
    return mk_bool(z3.And(
        forall([k], z3.Implies(z3.Select(H, k), z3.And(eqr > 0, eqr < st.alloc, tl > 0, tl < st.alloc, n >= 0)), patterns=[z3.Select(Dv, k)]),
        forall([k, k2], z3.Implies(z3.And(z3.Select(H, k), z3.Select(H, k2), k != k2), z3.Select(Dv, k) != z3.Select(Dv, k2)),
               patterns=[z3.MultiPattern(z3.Select(Dv, k), z3.Select(Dv, k2))]),
        forall([k, j], z3.Implies(z3.And(z3.Select(H, k), 0 <= j, j < n),
                                  z3.And(e > 0, e < st.alloc, z3.Select(O, e) == eqr, z3.Select(Pz, e) == j, z3.Or(z3.Select(B, e), z3.Select(Sm, e)))),
               patterns=[z3.Select(E, j)])))


BLOCK_RTFL = P.verify(fn(
    'sfc_models.equation.EquationBlock.ReplaceTokensFromLookup',
    args=dict(self=Ref('EquationBlock'), lookup=Dict(STR, STR)),
    modifies=['f.Term.Term'],
    requires=[('block_inv', 'block_inv(self)'), ('lookup_is_not_the_block', 'lookup is not self.Equations')],
    loops={0: LoopSpec(header='for eq in self.Equations.values()', index='b', modifies=['f.Term.Term'], invariants=[
        ('bounds', '0 <= b and b <= len(keys(self.Equations))'),
        ('renamed_so_far', 'all(all(self.Equations[keys(self.Equations)[m]].TermList[j].Term == renamed(old(self.Equations[keys(self.Equations)[m]].TermList[j].Term), lookup) '
                           'for j in range(0, len(self.Equations[keys(self.Equations)[m]].TermList))) for m in range(0, b))'),
        ('rest_as_before', 'all(all(self.Equations[keys(self.Equations)[m]].TermList[j].Term == old(self.Equations[keys(self.Equations)[m]].TermList[j].Term) '
                           'for j in range(0, len(self.Equations[keys(self.Equations)[m]].TermList))) for m in range(b, len(keys(self.Equations))))'),
        ('only_texts_written', "heap_unchanged_except('f.Term.Term')"),
    ])},
    ensures=[('every_equation_renamed_with_the_same_lookup',
              'all(implies(has(self.Equations, s), all(self.Equations[s].TermList[j].Term == renamed(old(self.Equations[s].TermList[j].Term), lookup) '
              'for j in range(0, len(self.Equations[s].TermList)))) for s in strings())'),
             ('only_texts_written', "heap_unchanged_except('f.Term.Term')")],
    raises=[RaisesSpec('ValueError', when='True', ensures=[('only_texts_written', "heap_unchanged_except('f.Term.Term')")])],
))

P.bound('rename-audit', 'dyn/C13.py', 'rename',
        'random expressions of depth <= 3 over 9 names and 8 literal forms x 9 renaming maps; 600 (quick) / 15000 (thorough) expressions',
        'T-TOK / T-EVAL audit: token-level expected result and value under the renamed environment (non-merging maps)')
