"""
C14 - Equation text is classified faithfully; comments are inert.
"""
import ast
from pyvc.types import *
from pyvc.spec import fn, cls, RaisesSpec, LoopSpec, specfn
from pyvc.prop import Property
import z3
from . import common, lib  # noqa

P = Property('C14', 'other',
             'EquationParser.ParseString on its real AST: (contract) on normal return a time variable exists (t = k is supplied when the user gives none), the '
             'section mode only ever moves from endogenous to exogenous, nothing but the parser object is written, and ValueError is raised only for an '
             'unreadable MaxTime / Err_Tolerance; (mechanical data-flow obligation) inside the line loop the raw line is read only to locate the comment, to '
             'cut the code part off, and to test the section marker on lines that have no code - after that only the comment-free code part is used, so '
             'comment text cannot reach any classification decision. Faithful classification of every documented line form is bounded.',
             'contract-based deductive verification: VCs generated from the real AST (pyvc), z3/cvc5; AST data-flow scan; bounded differential',
             design_ref='DESIGN.md section 6, C14')
P.trust('T-LIB: str.split(sep) returns a non-empty list; it has one element iff sep does not occur; the pieces joined by sep give the string back',
        'int(text) / float(text) either return a number or raise ValueError')
P.not_decided.append('each documented line form lands in the documented class with its right-hand side unchanged in meaning; malformed lines are reported; '
                     'descriptions emitted by the model are inert: bounded, dyn/C14.py')
P.replay_script = 'dyn/C14.py'

P.verify(fn(
    'sfc_models.equation_parser.EquationParser.ParseString',
    args=dict(self=Ref('EquationParser'), equation_string=STR), returns=STR,
    loops={0: LoopSpec(header='for equation in equation_list', index='i', modifies=['f.EquationParser.*', 'len.*', 'el.*', 'dh.*', 'dv.*', 'dk', 'tyof'], invariants=[
        ('bounds', '0 <= i and i <= len(equation_list)'),
        ('section_mode', "mode == 'endogenous' or mode == 'exogenous'"),
        ('time_variable_seen', "implies(found_t, has(self.AllEquations, 't') or has(self.AllEquations, 't_minus_1'))"),
        ('only_the_parser_is_written', "heap_unchanged_except('f.EquationParser.*', 'len.*', 'el.*', 'dh.*', 'dv.*', 'dk', 'tyof')"),
    ])},
    ensures=[('a_time_variable_exists', "has(self.AllEquations, 't') or has(self.AllEquations, 't_minus_1')"),
             ('only_the_parser_is_written', "heap_unchanged_except('f.EquationParser.*', 'len.*', 'el.*', 'dh.*', 'dv.*', 'dk', 'tyof')")],
    raises=[RaisesSpec('ValueError', when='True')],
))


@specfn('code_of')
def code_of(ctx, s):
    """the code part of a line: the text before the first '#', the whole line when there is none"""
    p = z3.IndexOf(s.t, z3.StringVal('#'), 0)
    return SV(STR, z3.If(p >= 0, z3.SubString(s.t, 0, p), s.t))


_PS = P.fns[0]
_PS.ghost_after.append(("mode = 'exogenous'", ast.parse(
    "_assert(%r, 'marker_only_in_code_or_on_a_comment_only_line')" %
    "('exogenous' in code_of(equation).lower()) or (code_of(equation).strip() == '' and 'exogenous' in equation.lower())").body))
for _g in _PS.ghost_after[-1][1]:
    for _x in ast.walk(_g):
        _x._is_ghost = True


def _scan_raw_line(repo):
    """inside the line loop of ParseString the raw line may be read only (a) as `<line>.find('#')`, (b) as the slice `<line>[0:pos]`, (c) as a plain copy
    into the code-part variable, (d) in `'exogenous' in <line>.lower()` as the right operand of an `and` whose left operand tests that the code part is
    blank; the first re-assignment of the loop variable must take the stripped code part, and nothing else may mention the raw line before it"""
    fi = repo.func('sfc_models.equation_parser.EquationParser.ParseString')
    if fi is None:
        return [('raw_line_flow', False, 'function not found')]
    loop = [x for x in ast.walk(fi.node) if isinstance(x, ast.For) and isinstance(x.target, ast.Name) and
            isinstance(x.iter, ast.Name) and x.iter.id == 'equation_list']
    if len(loop) != 1:
        return [('raw_line_flow', False, 'line loop not found')]
    loop = loop[0]
    L = loop.target.id
    bad = []
    code_vars = set()
    reassigned = False
    for stmt in loop.body:
        if reassigned:
            break
        # the re-assignment  L = <code var>.strip()
        if (isinstance(stmt, ast.Assign) and len(stmt.targets) == 1 and isinstance(stmt.targets[0], ast.Name) and stmt.targets[0].id == L):
            v = stmt.value
            ok = (isinstance(v, ast.Call) and isinstance(v.func, ast.Attribute) and v.func.attr == 'strip' and isinstance(v.func.value, ast.Name)
                  and v.func.value.id in code_vars and not v.args)
            if not ok:
                bad.append('line %d: the loop variable is re-assigned from %s' % (stmt.lineno, ast.unparse(v)))
            reassigned = True
            continue
        allowed = set()
        for x in ast.walk(stmt):
            # (a) L.find('#')
            if (isinstance(x, ast.Call) and isinstance(x.func, ast.Attribute) and x.func.attr == 'find' and isinstance(x.func.value, ast.Name) and x.func.value.id == L
                    and len(x.args) == 1 and isinstance(x.args[0], ast.Constant) and x.args[0].value == '#'):
                allowed.add(id(x.func.value))
            # (b) L[0:pos]
            if isinstance(x, ast.Subscript) and isinstance(x.value, ast.Name) and x.value.id == L and isinstance(x.slice, ast.Slice):
                allowed.add(id(x.value))
            # (c) code = L   /  code = L[0:pos]
            if isinstance(x, ast.Assign) and len(x.targets) == 1 and isinstance(x.targets[0], ast.Name):
                if isinstance(x.value, ast.Name) and x.value.id == L:
                    allowed.add(id(x.value))
                    code_vars.add(x.targets[0].id)
                if isinstance(x.value, ast.Subscript) and isinstance(x.value.value, ast.Name) and x.value.value.id == L:
                    code_vars.add(x.targets[0].id)
            # (d) <blank code part> and 'exogenous' in L.lower()
            if isinstance(x, ast.BoolOp) and isinstance(x.op, ast.And) and len(x.values) == 2:
                left, right = x.values
                txt = ast.unparse(left)
                blank = any(txt == t % cv for cv in code_vars for t in ('len(%s.strip()) == 0', "%s.strip() == ''", 'not %s.strip()'))
                if blank and isinstance(right, ast.Compare) and len(right.ops) == 1 and isinstance(right.ops[0], ast.In):
                    c = right.comparators[0]
                    if (isinstance(c, ast.Call) and isinstance(c.func, ast.Attribute) and c.func.attr == 'lower' and isinstance(c.func.value, ast.Name)
                            and c.func.value.id == L):
                        allowed.add(id(c.func.value))
        for x in ast.walk(stmt):
            if isinstance(x, ast.Name) and x.id == L and isinstance(x.ctx, ast.Load) and id(x) not in allowed:
                bad.append('line %d: raw line read in `%s`' % (x.lineno, ast.unparse(stmt).split('\n')[0][:80]))
    if not reassigned:
        bad.append('the loop variable is never replaced by the stripped code part')
    return [('comment_text_cannot_reach_a_decision', not bad, '; '.join(bad) if bad else 'raw line read only to find / cut the comment and for the marker on code-free lines')]


P.scan('raw_line_flow', _scan_raw_line)
P.bound('blocks', 'dyn/C14.py', 'blocks', 'random blocks rendered from a structure (line forms, spacings, lag spellings, comments, marker spellings, malformed lines): '
        '400 (quick) / 10000 (thorough)', 'classification = structure; series identical with / without comments; malformed lines reported')
P.bound('descriptions', 'dyn/C14.py', 'descriptions', 'a model whose long names / descriptions are drawn from 10 free texts: 40 (quick) / 1000 (thorough) draws',
        'free-text descriptions and long names emitted by the model never alter which equations exist or their solution')
