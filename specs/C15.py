"""
C15 - An accepted initial steady state really is steady.

Function under contract: equation_solver.EquationSolver.CalculateInitialSteadyState (real AST, extended reals).
Callee contracts used: _GetCopy (T-LIB deep copy, trusted), SolveStep (frame; verified under C10/C17),
Logger (no effect on model state; C17), GenerateCSVtext (C19).
"""
from pyvc.types import *
from pyvc.spec import fn, cls, RaisesSpec, LoopSpec, specfn
from pyvc.prop import Property
from pyvc import ops
import z3
from . import common, lib, solver_contracts  # noqa
from . import C19 as _c19  # noqa  (contract of TimeSeriesHolder.GenerateCSVtext)

P = Property('C15', 'proof',
             'Contract on the real AST of CalculateInitialSteadyState in extended-real arithmetic (inf/nan tags, '
             'overflow at DBL_MAX, no rounding): on normal return every non-excluded series passed the steady-state '
             'test of the statement (absolute, near-zero, or relative to |value| - whatever the sign) on the last two '
             'points of the search run and its k=0 value is the search run\'s last value; otherwise NoEquilibriumError '
             '/ ValueError; the solver\'s equations, exogenous paths, horizon and all points k>=1 are untouched.',
             'contract-based deductive verification: VCs generated from the real AST (pyvc), z3/cvc5',
             design_ref='DESIGN.md section 6, C15')
P.trust('T-LIB copy.deepcopy (contract of _GetCopy): fresh, disjoint, value-equal object graph',
        'float model: extended reals with overflow saturation at DBL_MAX, no rounding',
        'callee contract EquationSolver.SolveStep (frame only) - verified under C10/C17')
P.not_decided.append('"re-solving one more period changes no variable by more than the tolerance" additionally needs the one-step map '
                     'to be non-expansive at the accepted point (a property of the user\'s system): bounded in dyn/C15.py')
P.not_decided.append('KeyError/IndexError from malformed series (fewer than 2 points, missing names) are not excluded here; the length '
                     'invariants that exclude them are C10\'s')
P.replay_script = 'dyn/C15.py'


@specfn('steady')
def steady(ctx, last, prev, tol):
    """the acceptance test of the statement, on extended reals (comparisons with NaN are false)"""
    d = ops.absval(ops.arith('Sub', last, prev))
    a = ops.num_cmp('LtE', d, tol)
    small = mk_float(1e-4)
    b = z3.And(ops.num_cmp('Lt', ops.absval(last), small), ops.num_cmp('Lt', ops.absval(prev), small))
    # relative change |last - prev| / |last| <= tol  (undefined, hence false, for last == 0)
    c = z3.And(z3.Not(ops.is_zero_divisor(ops.absval(last))), ops.num_cmp('LtE', ops.divide(d, ops.absval(last)), tol))
    return mk_bool(z3.Or(a, b, c))


PRIO = "('iteration', 'iteration_error', 'iteration_abs_change', 'k', 't')"


def excl(name):
    return ("(%s == 'k' or any(old(self.ParameterInitialSteadyStateExcludedVariables[xq]) == %s for xq in "
            "range(0, old(len(self.ParameterInitialSteadyStateExcludedVariables)))))" % (name, name))


FRAME_FIELDS = "heap_unchanged_except('tyof', 'len.*', 'el.*', 'f.EquationSolver.TimeSeriesInitialSteadyState')"
COPY_FRESH = 'fresh(new_solver) and fresh(new_solver.TimeSeries) and fresh(new_solver.Parser)'
COPY_SERIES_FRESH = 'all(implies(has(new_solver.TimeSeries, s), fresh(new_solver.TimeSeries[s])) for s in strings())'
KQ = 'keys(self.TimeSeries)[q]'

P.verify(fn(
    'sfc_models.equation_solver.EquationSolver.CalculateInitialSteadyState',
    args=dict(self=Ref('EquationSolver')),
    returns=Ref('EquationSolver'),
    float_mode='xreal',
    requires=[
        ('tolerance_positive', 'self.ParameterInitialSteadyStateErrorToler > 0.0 and isfinite(self.ParameterInitialSteadyStateErrorToler)'),
        ('series_are_distinct_objects',
         'all(implies(has(self.TimeSeries, a) and has(self.TimeSeries, b) and a != b, self.TimeSeries[a] is not self.TimeSeries[b]) for a in strings() for b in strings())'),
        ('series_allocated', 'all(implies(has(self.TimeSeries, s), allocated(self.TimeSeries[s])) for s in strings())'),
        ('holder_class_invariant', 'self.TimeSeries.SortPriority == ' + PRIO),
        ('stored_values_finite', 'all_series_finite(self.TimeSeries)'),      # C02: only finite values are ever reported
    ],
    hints={('empty_list', 'bad_variables'): STR},
    loops={
        0: LoopSpec(header='for (var, dummy) in new_solver.Parser.Exogenous', index='e',
                    modifies=['len.*', 'el.*', 'dh.*', 'dv.*', 'dk', 'tyof'], invariants=[
            ('copy_is_fresh', COPY_FRESH),
            ('copy_series_fresh', COPY_SERIES_FRESH),
            ('own_state_untouched', "heap_unchanged_except('tyof')"),
            ('copy_holder_invariant', 'new_solver.TimeSeries.SortPriority == ' + PRIO),
            ('copy_values_finite', 'all_series_finite(new_solver.TimeSeries)'),
        ]),
        1: LoopSpec(header='for step in range(1, T + 1)', index='st',
                    modifies=['len.*', 'el.*', 'dh.*', 'dv.*', 'dk', 'tyof', 'f.EquationSolver.TimeSeriesStepTrace'], invariants=[
            ('copy_is_fresh', COPY_FRESH),
            ('copy_not_traced', 'is_none(new_solver.TraceStep)'),
            ('copy_series_fresh', COPY_SERIES_FRESH),
            ('own_state_untouched', "heap_unchanged_except('tyof')"),
            ('copy_holder_invariant', 'new_solver.TimeSeries.SortPriority == ' + PRIO),
            ('copy_values_finite', 'all_series_finite(new_solver.TimeSeries)'),
        ]),
        2: LoopSpec(header='for var in self.TimeSeries.keys()', index='v', ghost={'H1': 'heap_now()'},
                    modifies=['len.*', 'el.*', 'tyof'], invariants=[
            ('bounds', '0 <= v and v <= len(keys(self.TimeSeries))'),
            ('locals_fresh', COPY_FRESH + ' and fresh(bad_variables) and fresh(excluded) and bad_variables is not excluded'),
            ('copy_series_fresh', COPY_SERIES_FRESH),
            ('fields_and_dicts_untouched', FRAME_FIELDS),
            ('scratch_lists_stable', 'fresh_lists_unchanged_since(H1, bad_variables)'),
            ('search_values_finite', 'at(H1, all_series_finite(new_solver.TimeSeries))'),
            ('search_series_allocated_before_the_loop', 'at(H1, %s)' % COPY_SERIES_FRESH),
            ('excluded_content', "len(excluded) == 1 + old(len(self.ParameterInitialSteadyStateExcludedVariables)) and excluded[0] == 'k' and "
                                 "all(excluded[m] == old(self.ParameterInitialSteadyStateExcludedVariables[m - 1]) for m in range(1, len(excluded))) and "
                                 "all(old(self.ParameterInitialSteadyStateExcludedVariables[q]) == excluded[q + 1] for q in range(0, old(len(self.ParameterInitialSteadyStateExcludedVariables))))"),
            ('points_after_k0_untouched', 'lists_unchanged_from(1)'),
            ('only_own_series_written', 'lists_unchanged_except_series_of(self)'),
            ('accepted_so_far',
             'implies(len(bad_variables) == 0, all(implies(not %s, '
             'has(new_solver.TimeSeries, %s) and '
             'steady(at(H1, last_of(new_solver, %s)), at(H1, prev_of(new_solver, %s)), old(self.ParameterInitialSteadyStateErrorToler))) '
             'for q in range(0, v)))' % (excl(KQ), KQ, KQ, KQ),
             ['bounds', 'locals_fresh', 'copy_series_fresh', 'scratch_lists_stable', 'excluded_content', 'points_after_k0_untouched', 'search_values_finite']),
            ('installed_so_far',
             'implies(len(bad_variables) == 0, all(implies(not %s, '
             'same(self.TimeSeries[%s][0], at(H1, last_of(new_solver, %s)))) for q in range(0, v)))' % (excl(KQ), KQ, KQ),
             ['bounds', 'locals_fresh', 'copy_series_fresh', 'scratch_lists_stable', 'excluded_content', 'fields_and_dicts_untouched', 'points_after_k0_untouched']),
        ]),
    },
    ensures=[
        ('every_included_series_is_steady',
         'all(implies(has(self.TimeSeries, s) and not %s, steady(last_of(result, s), prev_of(result, s), old(self.ParameterInitialSteadyStateErrorToler))) '
         'for s in strings())' % excl('s')),
        ('every_included_series_is_installed',
         'all(implies(has(self.TimeSeries, s) and not %s, same(self.TimeSeries[s][0], last_of(result, s))) for s in strings())' % excl('s')),
        ('equations_paths_horizon_untouched', FRAME_FIELDS),
        ('points_after_k0_untouched', 'lists_unchanged_from(1)'),
        ('only_own_series_written', 'lists_unchanged_except_series_of(self)'),
    ],
    raises=[
        RaisesSpec('ValueError', when='True', ensures=[
            ('equations_paths_horizon_untouched', FRAME_FIELDS),
            ('points_after_k0_untouched', 'lists_unchanged_from(1)')]),
        RaisesSpec('LookupError', when='True'),       # malformed series: see not_decided
        RaisesSpec('Exception', when='True'),         # whatever SolveStep raises is passed on (`except: raise`)
    ],
))

P.bound('steady-state-catalogue', 'dyn/C15.py', 'search',
        'catalogue: 41 hand-made + 20 (quick) / 400 (thorough) random 2-variable linear systems x horizons {3,50,200} x tolerances {1e-4,1e-2}',
        'the statement\'s "one more period" clause (needs non-expansiveness of the user\'s system) and a native cross-check of the contract')


def _scan_getcopy(repo):
    """the trusted contract of _GetCopy is the contract of copy.deepcopy(self): the body must be exactly that call"""
    import ast
    fi = repo.func('sfc_models.equation_solver.EquationSolver._GetCopy')
    if fi is None:
        return [('body_is_deepcopy_of_self', False, '_GetCopy not found')]
    body = [s for s in fi.node.body if not (isinstance(s, ast.Expr) and isinstance(s.value, ast.Constant))]
    ok = (len(body) == 1 and isinstance(body[0], ast.Return) and ast.unparse(body[0].value) == 'copy.deepcopy(self)')
    return [('body_is_deepcopy_of_self', ok, 'body is: ' + '; '.join(ast.unparse(s) for s in body))]


P.scan('_GetCopy', _scan_getcopy, 'the T-LIB deep-copy contract is attached to a body that is literally copy.deepcopy(self)')
