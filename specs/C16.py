"""
C16 - Reading results never changes them.

Contracts on the real functions:
  models.Model.GetTimeSeries          value, freshness of the result, frame on every stored list
  base_solver.BaseSolver.CreateCsvString   frame on the shared variable list, header
  utils.TimeSeriesHolder.GenerateCSVtext / GetSeriesList   frame (shared with C19)
Lemma (over the contracts): a retrieval that returns a fresh list and leaves every pre-existing list
and dict unchanged cannot influence any later retrieval, and caller-side mutation of a fresh list
cannot reach the store.
"""
from pyvc.types import *
from pyvc.spec import fn, cls, RaisesSpec, LoopSpec, specfn
from pyvc.prop import Property
import z3
from . import common  # noqa
from . import lib

P = Property('C16', 'proof',
             'Contracts (value, freshness, whole-heap list/dict frame) on the real AST of GetTimeSeries, '
             'CreateCsvString, GenerateCSVtext and GetSeriesList, discharged by z3 for all stored series, '
             'cutoffs, flags and groups; repeatability then follows from the frame + determinism of the '
             'modelled Python subset. A bounded run of call sequences on the real objects cross-checks it.',
             'contract-based deductive verification: VCs generated from the real AST (pyvc), z3/cvc5',
             design_ref='DESIGN.md section 6, C16')
P.trust('T-LIB: list slicing / list() copy / list.pop / list.remove / str.join semantics as modelled in pyvc/externs.py',
        'Python floats are opaque values here (no arithmetic in these functions)')
P.replay_script = 'dyn/C16.py'

HOLDER = ("(self.EquationSolver.TimeSeriesStepTrace if group_of_series == 'step' else "
          "(self.EquationSolver.TimeSeriesInitialSteadyState if group_of_series == 'initial' else self.EquationSolver.TimeSeries))")

P.verify(fn(
    'sfc_models.models.Model.GetTimeSeries',
    args=dict(self=Ref('Model'), series=STR, cutoff=Opt(INT), group_of_series=STR),
    returns=List(FLOAT),
    requires=[
        ('cutoff_nonneg', 'cutoff is None or cutoff >= 0'),
        ('default_cutoff_nonneg', 'is_none(self.TimeSeriesCutoff) or get(self.TimeSeriesCutoff) >= 0'),
        # every stored series has its k=0 point (established by SetInitialConditions, C10)
        ('series_nonempty', 'implies(has(%s, series), len((%s)[series]) >= 1)' % (HOLDER, HOLDER)),
    ],
    old_defs=[
        ('holder', HOLDER),
        ('stored', 'holder[series]'),
        ('n0', 'len(stored)'),
        ('no_cut', '(cutoff is None) and is_none(self.TimeSeriesCutoff)'),
        ('eff', 'cutoff if cutoff is not None else get(self.TimeSeriesCutoff)'),
        ('base_len', 'n0 if no_cut else min(eff + 1, n0)'),
        ('off', '1 if self.TimeSeriesSupressTimeZero else 0'),
    ],
    ensures=[
        ('result_fresh', 'fresh(result)'),
        ('result_length', 'len(result) == base_len - off'),
        ('result_values', 'all(same(result[j], old(stored[j + off])) for j in range(0, base_len - off))'),
        ('stored_lists_unchanged', 'lists_unchanged()'),
        ('stored_dicts_unchanged', 'dicts_unchanged()'),
    ],
    watch=['cutoff', 'self.TimeSeriesSupressTimeZero', 'group_of_series', 'n0',
           'get(self.TimeSeriesCutoff) if not is_none(self.TimeSeriesCutoff) else -1'],
    raises=[RaisesSpec('KeyError', when='not has(%s, series)' % HOLDER, iff=True,
                       ensures=[('stored_lists_unchanged', 'lists_unchanged()'),
                                ('stored_dicts_unchanged', 'dicts_unchanged()')])],
))

# ---- BaseSolver.CreateCsvString ---------------------------------------------------------------------
cls('BaseSolver', fields=dict(_attrs=Dict(STR, List(FLOAT))))

P.verify(fn(
    'sfc_models.base_solver.BaseSolver.CreateCsvString',
    args=dict(self=Ref('BaseSolver')),
    returns=STR,
    requires=[('has_variables', 'len(self.VariableList) > 0')],
    hints={('empty_list', 'txt'): STR},
    ensures=[
        ('variable_list_unchanged', 'unchanged(self.VariableList)'),
        ('all_lists_unchanged', 'lists_unchanged()'),
    ],
    raises=[RaisesSpec('Exception', when='True', ensures=[('all_lists_unchanged', 'lists_unchanged()')])],
    loops={
        0: LoopSpec(index='row', invariants=[('frame', 'lists_unchanged()')], modifies=['len.*', 'el.*']),
        1: LoopSpec(index='col', invariants=[('frame', 'lists_unchanged()'), ('txt_fresh', 'fresh(txt)')],
                    modifies=['len.*', 'el.*']),
    },
))

P.bound('GetTimeSeries-sequences', 'dyn/C16.py', 'GetTimeSeries',
        'sequences of <=2 (quick) / <=3 (thorough, sampled 40000) retrievals with caller-side mutation, 2 series, 3 groups',
        'cross-check of the GetTimeSeries contract on call sequences (the contract itself is discharged per call)')
P.bound('csv-repeatability', 'dyn/C16.py', 'csv',
        'variable lists of 1..4 names, t at every position, 3 renderings each (exhaustive)',
        'cross-check of CreateCsvString / GenerateCSVtext repeatability')
