"""
C17 - Results depend only on the model, not on process history or diagnostics.

Decided through per-function disciplines (each a machine-checked obligation on the real source) that together rule out the
channels by which history or diagnostics could reach results:
  * process-wide state: the class-level / module-level locations written anywhere in the package are exactly the listed ones
    (mechanical scan of every assignment target in the AST), and none of them is read by a function under contract;
  * EconomicObject.__init__: IDs are handed out from a counter that only increases (contract, discharged);
  * a solver given a new block: EquationSolver.ParseString installs a fresh parser and an EMPTY variable list (contract, discharged);
  * tracing: every statement guarded by `is_trace_step` writes only the step-trace holder / the log and locals that are dead outside
    the guarded blocks (mechanical scan) - so the values appended by _SolveStep are the same function of its inputs with tracing on or off;
  * logging: Logger methods assign nothing but Logger's own class attributes and locals (mechanical scan).
"""
import ast
from pyvc.types import *
from pyvc.spec import fn, cls, RaisesSpec, LoopSpec, specfn
from pyvc.prop import Property
import z3
from . import common, lib  # noqa

P = Property('C17', 'other',
             'Contracts (discharged by z3) on EquationSolver.ParseString (fresh parser, empty variable list, stored results untouched) and '
             'EconomicObject.__init__ (monotone ID counter), plus mechanical obligations computed from the AST of the whole package on every run: '
             'the set of process-wide locations that are ever assigned, the write-set of every trace-guarded statement, the write-set of Logger. '
             'The relational end-to-end statement (same series whatever was built / solved / logged / traced before) is a bounded check of '
             'interleavings on the real objects.',
             'contract-based deductive verification (pyvc) + mechanical AST obligations; bounded interleavings',
             design_ref='DESIGN.md section 6, C17')
P.trust('contracts assumed for EquationParser.ParseString / ValidateInputs / EquationReduction at the call sites of EquationSolver.ParseString (arbitrary effect on the NEW parser object only)')
P.not_decided.append('the two-run statement itself (identical series under every interleaving, with logging / tracing on or off, after repeated solves): bounded, dyn/C17.py')
P.replay_script = 'dyn/C17.py'

# ---- EquationSolver.ParseString ---------------------------------------------------------------------------------
for q in ('ParseString', 'ValidateInputs', 'EquationReduction'):
    fn('sfc_models.equation_parser.EquationParser.' + q,
       args=dict(self=Ref('EquationParser'), equation_string=STR) if q == 'ParseString' else dict(self=Ref('EquationParser')),
       returns=STR if q == 'ParseString' else None,
       modifies=['f.EquationParser.*', 'len.*', 'el.*', 'dh.*', 'dv.*', 'dk', 'tyof'],
       ensures=[('only_this_parser', "touches_only_fresh_and(self)")],
       raises=[RaisesSpec('Exception', when='True', ensures=[('only_this_parser', "touches_only_fresh_and(self)")])])
fn('sfc_models.equation_parser.EquationParser.__init__', args=dict(self=Ref('EquationParser')),
   modifies=['f.EquationParser.*', 'len.*', 'el.*', 'dh.*', 'dv.*', 'dk', 'tyof'], ensures=[('only_this_parser', "touches_only_fresh_and(self)")])


@specfn('touches_only_fresh_and')
def touches_only_fresh_and(ctx, obj):
    """every heap family agrees with the entry state on objects allocated at entry, except the fields of `obj` itself"""
    from pyvc.state import FAM_SORTS, fam_init
    st, old = ctx.st, ctx.entry
    r = z3.Int(fresh_name('r'))
    conj = []
    for name in sorted(FAM_SORTS):
        now = st.heap[name] if name in st.heap else fam_init(name)
        then = old.heap[name] if name in old.heap else fam_init(name)
        if now is then or z3.eq(now, then) or name == 'tyof':
            continue
        if name.startswith('g.'):
            conj.append(now == then)
            continue
        guard = z3.And(r > 0, r < old.alloc)
        if name.startswith('f.EquationParser.'):
            guard = z3.And(guard, r != obj.t)
        conj.append(forall([r], z3.Implies(guard, z3.Select(now, r) == z3.Select(then, r)), patterns=[z3.Select(now, r)]))
    return mk_bool(z3.And(*conj) if conj else z3.BoolVal(True))


P.verify(fn(
    'sfc_models.equation_solver.EquationSolver.ParseString',
    args=dict(self=Ref('EquationSolver'), equation_string=STR), returns=STR,
    ensures=[('fresh_parser', 'fresh(self.Parser)'),
             ('no_remnant_of_the_previous_block', 'len(self.VariableList) == 0'),
             ('text_recorded', 'self.EquationString == equation_string'),
             ('horizon_override_kept', 'implies(not is_none(self.MaxTime), self.Parser.MaxTime == get(self.MaxTime))'),
             ('stored_results_untouched', "heap_unchanged_except('tyof', 'f.EquationSolver.Parser', 'f.EquationSolver.EquationString', 'f.EquationSolver.VariableList', "
                                          "'f.EquationParser.*', 'len.*', 'el.*', 'dh.*', 'dv.*', 'dk') and lists_unchanged() and dicts_unchanged()")],
    raises=[RaisesSpec('Exception', when='True', ensures=[('stored_results_untouched', 'lists_unchanged() and dicts_unchanged()')])],
))

# ---- EconomicObject.__init__ -------------------------------------------------------------------------------------
P.verify(fn(
    'sfc_models.models.EconomicObject.__init__',
    args=dict(self=Ref('EconomicObject'), parent=Opt(Ref('EconomicObject')), code=STR),
    ensures=[('id_from_the_counter', 'self.ID == old(counter_ID())'),
             ('counter_only_increases', 'counter_ID() == old(counter_ID()) + 1'),
             ('nothing_else_written', "heap_unchanged_except('tyof', 'f.EconomicObject.*', 'g.EconomicObject.ID', 'f.Sector.Parent', 'f.Country.Parent') and "
                                      "fields_unchanged_but(self, 'EconomicObject.ID', 'EconomicObject.Parent', 'EconomicObject.Code', 'EconomicObject.LongName', 'Sector.Parent', 'Country.Parent')", {'needs': ['__skip__']})],
))


@specfn('counter_ID')
def counter_ID(ctx):
    from pyvc.state import FAM_SORTS, fam_init
    st = ctx.st
    name = 'g.EconomicObject.ID'
    st.H(name, z3.IntSort())
    return SV(INT, st.heap[name])


# ---- mechanical obligations ------------------------------------------------------------------------------------------
ALLOWED_GLOBAL_WRITES = set(['EconomicObject.ID', 'Logger.log_file_handles', 'Logger.priority_cutoff', 'Parameters.SolveInitialEquilibrium'])


# each process-wide location may be written only by the listed functions (a new writer, e.g. a reset of the ID counter in another
# constructor, is a new way for one model's history to reach another's results)
ALLOWED_WRITERS = {
    'EconomicObject.ID': set(['EconomicObject.__init__']),
    'Logger.log_file_handles': None, 'Logger.priority_cutoff': None, 'Parameters.SolveInitialEquilibrium': None,   # None: any function (logging / user switch)
}


def _scan_process_state(repo):
    """every assignment to ClassName.attr (ClassName a class of the package), every `global` statement, with the enclosing function"""
    found = {}
    writers = {}

    def visit(node, where):
        for child in ast.iter_child_nodes(node):
            w = where
            if isinstance(child, ast.ClassDef):
                w = child.name
            elif isinstance(child, (ast.FunctionDef, ast.AsyncFunctionDef)):
                w = (where + '.' if where else '') + child.name
            tgts = []
            if isinstance(child, ast.Assign):
                tgts = child.targets
            elif isinstance(child, (ast.AugAssign, ast.AnnAssign)):
                tgts = [child.target]
            elif isinstance(child, ast.Global):
                found.setdefault('global ' + ','.join(child.names), []).append('%s:%d' % (mod, child.lineno))
            for t in tgts:
                base = t
                while isinstance(base, ast.Subscript):
                    base = base.value
                if isinstance(base, ast.Attribute) and isinstance(base.value, ast.Name) and (base.value.id in repo.classes or base.value.id == 'Parameters'):
                    key = '%s.%s' % (base.value.id, base.attr)
                    found.setdefault(key, []).append('%s:%d' % (mod, child.lineno))
                    writers.setdefault(key, set()).add(where or '<module>')
            visit(child, w)

    for mod, (path, src) in repo.files.items():
        visit(ast.parse(src), '')
    extra = sorted(k for k in found if k not in ALLOWED_GLOBAL_WRITES)
    bad_writers = dict((k, sorted(writers[k] - ALLOWED_WRITERS[k])) for k in writers
                       if k in ALLOWED_WRITERS and ALLOWED_WRITERS[k] is not None and writers[k] - ALLOWED_WRITERS[k])
    return [('only_the_listed_process_wide_locations_are_written', not extra,
             'unexpected process-wide writes: %s' % dict((k, found[k]) for k in extra) if extra else 'written: %s' % sorted(found)),
            ('process_wide_counters_have_no_other_writer', not bad_writers,
             'unexpected writers: %s' % bad_writers if bad_writers else 'writers: %s' % dict((k, sorted(v)) for k, v in writers.items()))]


P.scan('process_wide_state', _scan_process_state)


def _names_loaded(nodes):
    out = set()
    for n in nodes:
        for x in ast.walk(n):
            if isinstance(x, ast.Name) and isinstance(x.ctx, ast.Load):
                out.add(x.id)
    return out


def _scan_trace(repo):
    """statements guarded by `if is_trace_step:` in SolveStep / _SolveStep write only self.TimeSeriesStepTrace[...] / call Logger /
    AppendValue / append on it, and the locals they assign are not read outside the guarded blocks"""
    out = []
    for q in ('sfc_models.equation_solver.EquationSolver._SolveStep', 'sfc_models.equation_solver.EquationSolver.SolveStep'):
        fi = repo.func(q)
        if fi is None:
            out.append((q.split('.')[-1], False, 'function not found'))
            continue
        guarded, rest = [], []

        def split(stmts):
            for s in stmts:
                if isinstance(s, ast.If) and isinstance(s.test, ast.Name) and s.test.id == 'is_trace_step':
                    guarded.extend(s.body)
                    split(s.orelse)
                    continue
                rest.append(s)
                for f in ('body', 'orelse', 'finalbody'):
                    sub = getattr(s, f, None)
                    if isinstance(sub, list):
                        # nested blocks are examined on their own; the compound statement itself is kept in `rest` for its header only
                        pass
                if isinstance(s, (ast.For, ast.While, ast.If, ast.Try)):
                    rest.pop()
                    hdr = []
                    if isinstance(s, ast.For):
                        hdr = [s.iter]
                    elif isinstance(s, (ast.While, ast.If)):
                        hdr = [s.test]
                    rest.extend(hdr)
                    split(s.body)
                    split(getattr(s, 'orelse', []) or [])
                    split(getattr(s, 'finalbody', []) or [])
                    for h in getattr(s, 'handlers', []) or []:
                        split(h.body)
        split(fi.node.body)
        bad = []
        assigned = set()
        for g in guarded:
            for x in ast.walk(g):
                if isinstance(x, ast.Name) and isinstance(x.ctx, ast.Store):
                    assigned.add(x.id)
                if isinstance(x, (ast.Attribute, ast.Subscript)) and isinstance(x.ctx, ast.Store):
                    base = x
                    while isinstance(base, ast.Subscript):
                        base = base.value
                    txt = ast.unparse(base)
                    if txt != 'self.TimeSeriesStepTrace':
                        bad.append('writes %s (line %d)' % (ast.unparse(x), x.lineno))
                if isinstance(x, ast.Call):
                    f = x.func
                    ok = (isinstance(f, ast.Name) and f.id in ('Logger', 'float', 'abs', 'str', 'TimeSeriesHolder')) or \
                         (isinstance(f, ast.Attribute) and (ast.unparse(f.value).startswith('self.TimeSeriesStepTrace') or f.attr in ('format', 'join')))
                    if not ok:
                        bad.append('calls %s (line %d)' % (ast.unparse(f), x.lineno))
        leaked = sorted(assigned & _names_loaded(rest))
        if leaked:
            bad.append('locals assigned under the trace guard are read outside it: %s' % leaked)
        out.append(('%s_trace_blocks_are_inert' % q.split('.')[-1], not bad, '; '.join(bad) if bad else 'guarded statements: %d, locals: %s' % (len(guarded), sorted(assigned))))
    return out


P.scan('tracing', _scan_trace)


def _scan_logger(repo):
    ci = repo.classes.get('Logger')
    bad = []
    if ci is None:
        return [('logger_writes_only_its_own_state', False, 'class Logger not found')]
    for name, fi in ci.methods.items():
        for x in ast.walk(fi.node):
            if isinstance(x, (ast.Attribute, ast.Subscript)) and isinstance(x.ctx, ast.Store):
                base = x
                while isinstance(base, ast.Subscript):
                    base = base.value
                if ast.unparse(base) not in ('Logger.log_file_handles', 'Logger.priority_cutoff'):
                    bad.append('%s writes %s (line %d)' % (name, ast.unparse(x), x.lineno))
    return [('logger_writes_only_its_own_state', not bad, '; '.join(bad) if bad else 'methods: %s' % sorted(ci.methods))]


P.scan('logging', _scan_logger)

P.bound('interleavings', 'dyn/C17.py', 'history',
        'random interleavings of building / solving 2-3 models and solvers in one process, logging on / off, tracing on / off, repeated solves, '
        're-parsing a solver with another block; 40 (quick) / 600 (thorough) interleavings',
        'the relational statement: series identical to those of a fresh process-independent reference run')
