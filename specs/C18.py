"""
C18 - Codes are labels: renaming and embedding leave an economy unchanged.
"""
from pyvc.types import *
from pyvc.spec import fn, cls, RaisesSpec, LoopSpec, specfn
from pyvc.prop import Property
import z3
from . import common, lib, den, equation_contracts, sector_contracts  # noqa
from . import C05 as _c05  # noqa  (_GenerateFullSectorCodes: country prefix iff more than one country; GetVariableName)

P = Property('C18', 'other',
             'Contracts on the real AST of the constructors that take name parameters (HouseholdWithExpectations.__init__, Household.__init__, '
             'BaseHousehold.__init__, FixedMarginBusiness.__init__: every variable and equation text is built from the names given, none from a '
             'literal GOOD / LAB), of CurrencyZone.GetSectors / LookupSector (searches see exactly the sectors of the countries of the zone) and, from '
             'C05, Model._GenerateFullSectorCodes (country prefix iff more than one country). The whole-model statements (series invariant under '
             'renaming; economies with different currencies do not interact) are bounded: generated economies solved and compared.',
             'contract-based deductive verification: VCs generated from the real AST (pyvc), z3/cvc5; bounded model comparison',
             design_ref='DESIGN.md section 6, C18')
P.trust('contract of Sector.__init__ (assumed: arbitrary effect on the model, creates self.EquationBlock); contract of AddVariable (verified in C11 for identifier-shaped names), '
        'SetEquationRightHandSide (below, verified)', 'T-FMT: "%0.4f" % x is a function of x')
P.not_decided.append('series-level invariance under renaming and embedding: bounded (dyn/C18.py); government classes take no good-name parameter '
                     '(their built-in DEM_GOOD / PRIM_BAL are outside "the names the constructors accept")')
P.replay_script = 'dyn/C18.py'

cls('BaseHousehold', fields=dict(AlphaIncome=FLOAT, AlphaFin=FLOAT))
cls('FixedMarginBusiness', fields=dict(ProfitMargin=FLOAT, LabourInputName=STR, OutputName=STR))

# assumed: the base constructor (registers the sector with its country and model, creates the ledgers)
fn('sfc_models.sector.Sector.__init__', args=dict(self=Ref('Sector'), country=Ref('Country'), code=STR, long_name=STR, has_F=BOOL),
   modifies=['*'], ensures=[('block_created', 'allocated(self.EquationBlock) and allocated(self.EquationBlock.Equations)')],
   raises=[RaisesSpec('LogicError', when='True'), RaisesSpec('ValueError', when='True')])
fn('sfc_models.models.Model.AddCashFlowIncomeExclusion', args=dict(self=Ref('Model'), sector=Ref('Sector'), cash_flow_name=STR),
   modifies=['len.*', 'el.*', 'tyof'], ensures=[])

BLK = 'self.EquationBlock.Equations'
SERHS = P.verify(fn(
    'sfc_models.sector.Sector.SetEquationRightHandSide',
    args=dict(self=Ref('Sector'), varname=STR, rhs=STR),
    ensures=[('installed_as_one_blob', "len(%s[varname].TermList) == 1 and %s[varname].TermList[0].IsBlob and %s[varname].TermList[0].Term == nospace(rhs)" % (BLK, BLK, BLK)),
             ('same_variables', 'all(has(%s, s) == old(has(%s, s)) and %s[s] is old(%s[s]) for s in strings())' % (BLK, BLK, BLK, BLK)),
             ('other_equations_untouched', 'all(implies(has(%s, s) and %s[s] is not %s[varname], %s[s].TermList is old(%s[s].TermList)) for s in strings())' % (BLK, BLK, BLK, BLK, BLK)),
             ('existing_lists_and_dicts_untouched', 'lists_unchanged() and dicts_unchanged()')],
    raises=[RaisesSpec('KeyError', when='not has(%s, varname)' % BLK, iff=True, ensures=[('nothing_changed', "heap_unchanged_except('tyof', 'f.Term.*')")])],
))


def defined_as(var, text):
    e = '%s[%s]' % (BLK, var)
    return ("has(%s, %s) and allocated(%s) and allocated(%s.TermList) and len(%s.TermList) == 1 and allocated(%s.TermList[0]) and "
            "%s.TermList[0].IsBlob and %s.TermList[0].Term == nospace(%s)" % (BLK, var, e, e, e, e, e, e, text))


P.verify(fn(
    'sfc_models.sector_definitions.FixedMarginBusiness.__init__',
    args=dict(self=Ref('FixedMarginBusiness'), country=Ref('Country'), code=STR, long_name=STR, profit_margin=FLOAT, labour_input_name=STR, output_name=STR),
    requires=[('names_are_local', "not ('__' in output_name) and not ('__' in labour_input_name) and plain_name(output_name) and plain_name(labour_input_name)")],
    ensures=[('supply_variable_named_after_the_output', "has(%s, 'SUP_' + output_name)" % BLK),
             ('profit_uses_the_given_names', defined_as("'PROF'", "'SUP_' + output_name + ' - DEM_' + labour_input_name")),
             ('labour_demand_declared', "has(%s, 'DEM_' + labour_input_name)" % BLK),
             ('names_remembered', 'self.LabourInputName == labour_input_name and self.OutputName == output_name')],
    raises=[RaisesSpec('LogicError', when='True'), RaisesSpec('ValueError', when='True')],
))

HH_ARGS = dict(country=Ref('Country'), code=STR, long_name=STR, alpha_income=FLOAT, alpha_fin=FLOAT, consumption_good_name=STR)
HH_ENS = [('consumption_demand_named_after_the_good', "has(%s, 'DEM_' + consumption_good_name)" % BLK),
          ('parameters_and_ledger_variables', "has(%s, 'AlphaIncome') and has(%s, 'AlphaFin') and has(%s, 'AfterTax') and has(%s, 'T')" % (BLK, BLK, BLK, BLK))]
HH_RAISES = [RaisesSpec('LogicError', when='True'), RaisesSpec('ValueError', when='True')]
CONS = "'AlphaIncome * AfterTax + AlphaFin * LAG_F'"
CONSX = "'AlphaIncome * EXP_AfterTax + AlphaFin * LAG_F'"

BASEHH = P.verify(fn(
    'sfc_models.sector_definitions.BaseHousehold.__init__',
    args=dict(self=Ref('BaseHousehold'), **HH_ARGS),
    modifies=['*'],
    requires=[('good_name_is_local', "not ('__' in 'DEM_' + consumption_good_name) and consumption_good_name != '' and plain_name(consumption_good_name)")],
    ensures=HH_ENS + [('consumption_function', defined_as("'DEM_' + consumption_good_name", CONS)),
                      ('block_created', 'allocated(self.EquationBlock) and allocated(self.EquationBlock.Equations)')],
    raises=HH_RAISES,
))
HH = P.verify(fn(
    'sfc_models.sector_definitions.Household.__init__',
    args=dict(self=Ref('Household'), labour_name=STR, **HH_ARGS),
    modifies=['*'],
    requires=[('names_are_local', "not ('__' in 'DEM_' + consumption_good_name) and not ('__' in 'SUP_' + labour_name) and consumption_good_name != '' and plain_name(consumption_good_name) and plain_name(labour_name)")],
    ensures=HH_ENS + [('consumption_function', defined_as("'DEM_' + consumption_good_name", CONS)),
                      ('labour_supply_named_after_the_labour_market', "has(%s, 'SUP_' + labour_name)" % BLK),
                      ('block_created', 'allocated(self.EquationBlock) and allocated(self.EquationBlock.Equations)')],
    raises=HH_RAISES,
))
P.verify(fn(
    'sfc_models.sector_definitions.HouseholdWithExpectations.__init__',
    args=dict(self=Ref('HouseholdWithExpectations'), labour_name=STR, **HH_ARGS),
    modifies=['*'],
    requires=[('names_are_local', "not ('__' in 'DEM_' + consumption_good_name) and not ('__' in 'SUP_' + labour_name) and consumption_good_name != '' and plain_name(consumption_good_name) and plain_name(labour_name)")],
    ensures=HH_ENS + [('consumption_out_of_expected_income', defined_as("'DEM_' + consumption_good_name", CONSX)),
                      ('labour_supply_named_after_the_labour_market', "has(%s, 'SUP_' + labour_name)" % BLK),
                      ('expectation_variables', "has(%s, 'LAG_AfterTax') and has(%s, 'EXP_AfterTax')" % (BLK, BLK))],
    raises=HH_RAISES + [RaisesSpec('KeyError', when='False')],
))
P.verify(fn(
    'sfc_models.sector_definitions.Capitalists.__init__',
    args=dict(self=Ref('Capitalists'), **HH_ARGS),
    modifies=['*'],
    requires=[('good_name_is_local', "not ('__' in 'DEM_' + consumption_good_name) and consumption_good_name != '' and plain_name(consumption_good_name)")],
    ensures=HH_ENS + [('consumption_function', defined_as("'DEM_' + consumption_good_name", CONS)),
                      ('dividend_income_variable', "has(%s, 'DIV')" % BLK)],
    raises=HH_RAISES,
))

# ---- searches are scoped to the currency zone -----------------------------------------------------------------
CL = 'self.CountryList'
# (the zone's sector lists are read in the entry state: nothing writes them, and entry-state arrays give stable quantifier triggers)
IN_ZONE = 'any(any(%%s is old(%s[cc].SectorList[j]) for j in range(0, old(len(%s[cc].SectorList)))) for cc in range(0, %%s))' % (CL, CL)
fn('sfc_models.models.Country.GetSectors', args=dict(self=Ref('Country')), returns=List(Ref('Sector')),
   ensures=[('the_sector_list', 'result is self.SectorList'), ('nothing_written', 'heap_unchanged_except()')])
ZONE_SECTORS = P.verify(fn(
    'sfc_models.models.CurrencyZone.GetSectors',
    args=dict(self=Ref('CurrencyZone')), returns=List(Ref('Sector')),
    hints={('empty_list', 'out'): Ref('Sector')},
    requires=[('country_objects_exist', 'all(allocated(%s[cc]) and allocated(%s[cc].SectorList) for cc in range(0, len(%s)))' % (CL, CL, CL))],
    loops={0: LoopSpec(header='for c in self.CountryList', index='ci', modifies=['len.R', 'el.R'], invariants=[
        ('bounds', '0 <= ci and ci <= len(%s)' % CL),
        ('result_is_private', 'fresh(out) and lists_unchanged_but(out)'),
        ('sector_lists_are_not_the_result', 'all(%s[cc].SectorList is not out and allocated(%s[cc].SectorList) and not fresh(%s[cc].SectorList) for cc in range(0, len(%s)))' % (CL, CL, CL, CL)),
        ('only_sectors_of_the_zone', 'all(%s for i in range(0, len(out)))' % (IN_ZONE % ('out[i]', 'ci'))),
        ('every_sector_of_the_countries_done', 'all(any(out[i] is old(%s[cc].SectorList[j]) for i in range(0, len(out))) for cc in range(0, ci) for j in range(0, old(len(%s[cc].SectorList))))' % (CL, CL)),
    ])},
    ghost_after=[(r're:\w+\.extend\(c\.GetSectors\(\)\)',
                  "_assert(%r, 'appended_in_order')" % ('all(out[at(_iter_start, len(out)) + j] is old(%s[ci].SectorList[j]) for j in range(0, old(len(%s[ci].SectorList)))) and '
                                                       'len(out) == at(_iter_start, len(out)) + old(len(%s[ci].SectorList))' % (CL, CL, CL)))],
    ensures=[('fresh', 'fresh(result)'),
             ('only_sectors_of_the_zone', 'all(%s for i in range(0, len(result)))' % (IN_ZONE % ('result[i]', 'len(%s)' % CL))),
             ('every_sector_of_the_zone', 'all(any(result[i] is old(%s[cc].SectorList[j]) for i in range(0, len(result))) for cc in range(0, len(%s)) for j in range(0, old(len(%s[cc].SectorList))))' % (CL, CL, CL)),
             ('nothing_else_written', "heap_unchanged_except('len.R', 'el.R', 'tyof') and lists_unchanged()")],
))

ZSEC = '%s[cc].SectorList[j]' % CL
P.verify(fn(
    'sfc_models.models.CurrencyZone.LookupSector',
    args=dict(self=Ref('CurrencyZone'), short_code=STR), returns=Ref('Sector'),
    requires=[('country_objects_exist', 'all(allocated(%s[cc]) and allocated(%s[cc].SectorList) for cc in range(0, len(%s)))' % (CL, CL, CL))],
    hints={('local', 'out'): Opt(Ref('Sector'))},
    loops={0: LoopSpec(header='for s in self.GetSectors()', index='i', modifies=[], invariants=[
        ('bounds', '0 <= i and i <= len(_it)'),
        ('nothing_found_yet', 'implies(is_none(out), all(_it[q].Code != short_code for q in range(0, i)))'),
        ('the_only_match_so_far', 'implies(not is_none(out), any(get(out) is _it[j] and _it[j].Code == short_code and '
                                  'all(implies(_it[q].Code == short_code, q == j) for q in range(0, i)) for j in range(0, i)))'),
    ])},
    ensures=[('has_the_code', 'result.Code == short_code'),
             ('is_a_sector_of_the_zone', IN_ZONE % ('result', 'len(%s)' % CL)),
             ('the_only_one_in_the_zone', 'all(implies(%s.Code == short_code, %s is result) for cc in range(0, len(%s)) for j in range(0, len(%s[cc].SectorList)))' % (ZSEC, ZSEC, CL, CL)),
             ('nothing_written', "heap_unchanged_except('len.R', 'el.R', 'tyof') and lists_unchanged()")],
    raises=[RaisesSpec('LogicError', when='True', ensures=[('nothing_written', "heap_unchanged_except('len.R', 'el.R', 'tyof') and lists_unchanged()")])],
))
P.bound('rename', 'dyn/C18.py', 'rename', 'random economies with every country / sector / market code renamed: 16 (quick) / 300 (thorough)',
        'series-level invariance under injective renaming of codes')
P.bound('embed', 'dyn/C18.py', 'embed', '2-3 random economies with different currencies solved alone and together: 10 (quick) / 150 (thorough)',
        'economies with distinct currencies and no declared flows do not interact; documented country prefix')
P.bound('scoping', 'dyn/C18.py', 'scoping', 'random country / currency / sector layouts with duplicate codes: 300 (quick) / 5000 (thorough)',
        'CurrencyZone.GetSectors / LookupSector see exactly the sectors of the zone; ambiguity and absence are refused')
