"""
C19 - Tab-delimited output is a faithful table of the results.
"""
from pyvc.types import *
from pyvc.spec import fn, cls, RaisesSpec, LoopSpec, specfn
from pyvc.prop import Property
import z3
from . import common  # noqa
from . import lib

P = Property('C19', 'proof',
             'Contracts on the real AST of TimeSeriesHolder.GetSeriesList (permutation of the keys, priority names '
             'first in the documented order, rest sorted, store untouched) and GenerateCSVtext (header + exactly '
             'min-length rows, cell (i,j) = format % value of series j at period i), discharged by z3 for all key sets, '
             'values, lengths and format strings.',
             'contract-based deductive verification: VCs generated from the real AST (pyvc), z3/cvc5',
             design_ref='DESIGN.md section 6, C19')
P.trust('T-LIB: list.sort yields a sorted permutation; list.remove removes the first occurrence; dict key enumeration is duplicate-free; str.join depends only on the joined elements',
        "T-FMT: `fmt % (x,)` is a function of fmt and x; that parsing the rendered cell recovers the value to the format's precision is a property of CPython's formatting (bounded audit only)")
P.not_decided.append('parsing the text recovers every value to the format precision (T-FMT, bounded audit in dyn/C19.py)')

PRIO = ('iteration', 'iteration_error', 'iteration_abs_change', 'k', 't')


@specfn('rank')
def rank(ctx, s):
    t = z3.IntVal(5)
    for i in reversed(range(5)):
        t = z3.If(s.t == z3.StringVal(PRIO[i]), z3.IntVal(i), t)
    return SV(INT, t)


P.verify(fn(
    'sfc_models.utils.TimeSeriesHolder.GetSeriesList',
    args=dict(self=Ref('TimeSeriesHolder')),
    returns=List(STR),
    hints={('empty_list', 'included'): STR},
    requires=[('priority_tuple', "self.SortPriority == ('iteration', 'iteration_error', 'iteration_abs_change', 'k', 't')")],
    loops={0: LoopSpec(header='for x in self.SortPriority', index='p', modifies=['len.S', 'el.S'], invariants=[
        ('bounds', '0 <= p and p <= 5'),
        ('locals_fresh', 'fresh(included) and fresh(serlist) and included is not serlist'),
        ('frame', 'lists_unchanged() and dicts_unchanged()', ['bounds', 'locals_fresh']),
        ('rest_sorted', 'all(implies(i < j, serlist[i] < serlist[j]) for i in range(0, len(serlist)) for j in range(0, len(serlist)))', ['bounds', 'locals_fresh']),
        ('rest_are_keys', 'all(has(self, serlist[i]) and rank(serlist[i]) >= p for i in range(0, len(serlist)))', ['bounds', 'locals_fresh', 'rest_sorted']),
        ('included_are_keys', 'all(has(self, included[i]) and rank(included[i]) < p for i in range(0, len(included)))', ['bounds', 'locals_fresh', 'rest_are_keys']),
        ('included_in_order', 'all(implies(i < j, rank(included[i]) < rank(included[j])) for i in range(0, len(included)) for j in range(0, len(included)))', ['bounds', 'locals_fresh', 'included_are_keys']),
        ('priority_keys_included', 'all(implies(has(self, s) and rank(s) < p, any(included[i] == s for i in range(0, len(included)))) for s in strings())', ['bounds', 'locals_fresh', 'other_keys_in_rest']),
        ('other_keys_in_rest', 'all(implies(has(self, s) and rank(s) >= p, any(serlist[i] == s for i in range(0, len(serlist)))) for s in strings())', ['bounds', 'locals_fresh']),
    ])},
    ensures=[
        ('fresh', 'fresh(result)'),
        ('every_key_listed', 'all(implies(has(self, s), any(result[i] == s for i in range(0, len(result)))) for s in strings())'),
        ('only_keys_listed', 'all(has(self, result[i]) for i in range(0, len(result)))'),
        ('priority_then_alphabetical',
         'all(implies(i < j, rank(result[i]) < rank(result[j]) or (rank(result[i]) == 5 and rank(result[j]) == 5 and result[i] < result[j]))'
         ' for i in range(0, len(result)) for j in range(0, len(result)))'),
        ('lists_unchanged', 'lists_unchanged()'),
        ('dicts_unchanged', 'dicts_unchanged()'),
    ],
))

# ---- GenerateCSVtext ------------------------------------------------------------------------------------
_rows = {}


def _tab():
    return z3.StringVal('\t')


@specfn('join_tab')
def join_tab(ctx, q):
    J = z3.Function('py_join', z3.StringSort(), z3.ArraySort(z3.IntSort(), z3.StringSort()), z3.IntSort(), z3.StringSort())
    if q.ty.kind == 'seq':
        return SV(STR, J(_tab(), q.t, q.meta))
    return SV(STR, J(_tab(), ctx.st.list_elems(q), ctx.st.list_len(q)))


@specfn('Rows')
def Rows(ctx, hdr, fmt, selfv, k):
    """Rows(k) = Row(0) ++ ... ++ Row(k-1);  Row(i) = '\\t'.join(Cells(i)) + '\\n';
    Cells(i)[j] = fmt % (value at period i of the series named hdr[j], as stored at function entry)
    (definitional axioms, instantiated at the argument)"""
    key = (hdr.t.get_id(), fmt.t.get_id(), selfv.t.get_id())
    J = z3.Function('py_join', z3.StringSort(), z3.ArraySort(z3.IntSort(), z3.StringSort()), z3.IntSort(), z3.StringSort())
    if key not in _rows:
        n = len(_rows)
        _rows[key] = (z3.Function('Rows!%d' % n, z3.IntSort(), z3.StringSort()),
                      z3.Function('Cells!%d' % n, z3.IntSort(), z3.ArraySort(z3.IntSort(), z3.StringSort())))
    RowsF, CellsF = _rows[key]
    ent = ctx.entry
    i, j = z3.Int(fresh_name('ri')), z3.Int(fresh_name('cj'))
    name = SV(STR, z3.Select(hdr.t, j))
    series = ent.dict_get(selfv, name)
    val = ent.list_get(series, i)
    from pyvc.externs import install  # noqa
    fmtf = z3.Function('py_fmt_' + sortkey(FLOAT), z3.StringSort(), sort_of(FLOAT), z3.StringSort())
    row = lambda t: z3.Concat(J(_tab(), CellsF(t), hdr.meta), z3.StringVal('\n'))
    ctx.side.append(forall([i, j], z3.Select(CellsF(i), j) == fmtf(fmt.t, val.t), patterns=[z3.Select(CellsF(i), j)]))
    ctx.side.append(RowsF(z3.IntVal(0)) == z3.StringVal(''))
    ctx.side.append(z3.Implies(k.t > 0, RowsF(k.t) == z3.Concat(RowsF(k.t - 1), row(k.t - 1))))
    return SV(STR, RowsF(k.t))


HDR_OK = ("seq_eq(varz, hdr)")

P.verify(fn(
    'sfc_models.utils.TimeSeriesHolder.GenerateCSVtext',
    args=dict(self=Ref('TimeSeriesHolder'), format_str=STR),
    returns=STR,
    requires=[('priority_tuple', "self.SortPriority == ('iteration', 'iteration_error', 'iteration_abs_change', 'k', 't')"),
              # heap well-formedness (type invariant): every stored series is an allocated list object
              ('stored_series_allocated', 'all(implies(has(self, s), allocated(self[s])) for s in strings())')],
    hints={('empty_list', 'row'): FLOAT},
    loops={
        0: LoopSpec(header='for i in range(0, N)', index='ri', modifies=['len.*', 'el.*'], ghost={'hdr': 'snap(varz)'}, invariants=[
            ('bounds', '0 <= ri and ri <= N'),
            ('frame', 'lists_unchanged() and dicts_unchanged()'),
            ('header_kept', 'fresh(varz) and seq_eq(varz, hdr)'),
            ('table_so_far', "out == join_tab(hdr) + '\\n' + Rows(hdr, format_str, self, ri)"),
            ('header_names_stored', 'all(has(self, hdr[j]) for j in range(0, len(hdr)))'),
            ('N_at_most_every_length', 'all(N <= old(len(self[hdr[j]])) for j in range(0, len(hdr)))'),
        ]),
        1: LoopSpec(header='for v in varz', index='cj', modifies=['len.*', 'el.*'], invariants=[
            ('bounds', '0 <= cj and cj <= len(hdr)'),
            ('frame', 'lists_unchanged() and dicts_unchanged()'),
            ('header_kept', 'fresh(varz) and seq_eq(varz, hdr)'),
            ('row_fresh', 'fresh(row) and row is not varz'),
            ('header_names_stored', 'all(has(self, hdr[j]) for j in range(0, len(hdr)))'),
            ('N_at_most_every_length', 'all(N <= old(len(self[hdr[j]])) for j in range(0, len(hdr)))'),
            ('period_in_range', '0 <= i and i < N'),
            ('row_so_far', 'len(row) == cj and all(same(row[j], old(self[hdr[j]][i])) for j in range(0, cj))'),
        ]),
    },
    ensures=[
        ('empty_holder_empty_text', "implies(len(varz) == 0, result == '')", {'needs': ['varz']}),
        ('empty_iff_no_series', 'iff(len(varz) == 0, all(not has(self, s) for s in strings()))', {'needs': ['varz']}),
        ('header_then_rows', "result == join_tab(hdr) + '\\n' + Rows(hdr, format_str, self, N)", {'needs': ['N', 'hdr']}),
        ('rows_up_to_shortest_series', 'all(N <= old(len(self[hdr[j]])) for j in range(0, len(hdr))) and '
                                       'any(N == old(len(self[hdr[j]])) for j in range(0, len(hdr)))', {'needs': ['N', 'hdr']}),
        ('header_lists_every_series', 'all(implies(has(self, s), any(hdr[i] == s for i in range(0, len(hdr)))) for s in strings())', {'needs': ['hdr']}),
        ('header_lists_only_series', 'all(has(self, hdr[i]) for i in range(0, len(hdr)))', {'needs': ['hdr']}),
        ('header_priority_then_alphabetical',
         'all(implies(i < j, rank(hdr[i]) < rank(hdr[j]) or (rank(hdr[i]) == 5 and rank(hdr[j]) == 5 and hdr[i] < hdr[j]))'
         ' for i in range(0, len(hdr)) for j in range(0, len(hdr)))', {'needs': ['hdr']}),
        ('lists_unchanged', 'lists_unchanged()'),
        ('dicts_unchanged', 'dicts_unchanged()'),
    ],
))

P.verify(fn(
    'sfc_models.utils.TimeSeriesHolder.__init__',
    args=dict(self=Ref('TimeSeriesHolder'), time_series=STR),
    ensures=[('documented_priority_order',
              "self.SortPriority == ('iteration', 'iteration_error', 'iteration_abs_change', 'k', 't')"),
             ('name_kept', 'self.TimeSeriesName == time_series'),
             ('no_series_touched', 'lists_unchanged() and dicts_unchanged()')],
))

P.verify(fn(
    'sfc_models.equation_solver.EquationSolver.GenerateCSVtext',
    args=dict(self=Ref('EquationSolver'), format_str=STR),
    returns=STR,
    requires=[('priority_tuple', "self.TimeSeries.SortPriority == ('iteration', 'iteration_error', 'iteration_abs_change', 'k', 't')"),
              ('stored_series_allocated', 'all(implies(has(self.TimeSeries, s), allocated(self.TimeSeries[s])) for s in strings())')],
    ensures=[('lists_unchanged', 'lists_unchanged()'), ('dicts_unchanged', 'dicts_unchanged()')],
))

P.bound('table-roundtrip', 'dyn/C19.py', 'table',
        'random holders: <=6 series names drawn from priority names + random identifiers, ragged lengths 0..5, ints and floats '
        'of magnitudes 1e-300..1e300 and both signs, formats %.5g %r %d %.12e %s; 300 (quick) / 5000 (thorough) holders',
        'T-FMT audit: parsing the text recovers every value to the precision of the format; native cross-check of the '
        'GetSeriesList / GenerateCSVtext contracts')
P.bound('render-mutate-render', 'dyn/C19.py', 'sequences', '30 (quick) / 500 (thorough) random orders of 8 mutations of one holder, rendering after each',
        'the table is that of the series stored at the time of each call (no stale state between calls)')
P.replay_script = 'dyn/C19.py'
