"""
C20 - Generated stand-alone solver agrees with the in-process solver.
"""
import ast
from pyvc.types import *
from pyvc.spec import fn, cls, RaisesSpec, LoopSpec, specfn
from pyvc.prop import Property
import z3
from . import common, lib  # noqa
from . import C16 as _c16  # noqa  (BaseSolver class fields)

P = Property('C20', 'other',
             'What a contract on the generator can reach: IterativeMachineGenerator.GenerateEquations on its real AST (the variable vector handed to the template '
             'lists every simultaneous, lagged and exogenous variable exactly once and in order, the equation list is parallel to it, the table columns are the '
             'non-lagged ones) and BaseSolver.CreateCsvString (the header is the variable list with the time axis moved to the front, nothing else reordered, '
             'dropped or repeated; the stored list is not modified), plus a mechanical obligation on the template text (the step counter k is defined before the '
             'iteration). The behaviour of the GENERATED module is a second program outside any contract on this code base: it is executed and checked bounded.',
             'contract-based deductive verification: VCs generated from the real AST (pyvc), z3/cvc5; template scan; bounded execution of generated modules',
             design_ref='DESIGN.md section 6, C20')
P.trust('T-LIB list.remove / list concatenation / str.join as modelled in pyvc/externs.py')
P.not_decided.append('the generated module imports, runs, satisfies the block equations for k >= 1 and reproduces the in-process series: bounded, dyn/C20.py '
                     '(no contract on /repo can speak about the semantics of the text it emits)')
P.replay_script = 'dyn/C20.py'

cls('IterativeMachineGenerator', fields=dict(
    Endogenous=List(Tup(STR, STR)), Lagged=List(Tup(STR, STR)), Exogenous=List(Tup(STR, STR)), AllVariables=List(STR), NonLagged=List(STR),
    EquationList=List(STR), MaxTime=INT))

NE, NL, NX = 'len(self.Endogenous)', 'len(self.Lagged)', 'len(self.Exogenous)'
FRESH = 'fresh(self.AllVariables) and fresh(self.NonLagged) and fresh(self.EquationList) and self.AllVariables is not self.NonLagged and self.AllVariables is not self.EquationList'
INPUTS = ("lists_unchanged() and self.Endogenous is old(self.Endogenous) and self.Lagged is old(self.Lagged) and self.Exogenous is old(self.Exogenous)")


def seg(lst, off, src, comp, upto):
    return 'all(%s[%s + j] == %s[j][%d] for j in range(0, %s))' % (lst, off, src, comp, upto)


P.verify(fn(
    'sfc_models.deprecated.iterative_machine_generator.IterativeMachineGenerator.GenerateEquations',
    args=dict(self=Ref('IterativeMachineGenerator')),
    hints={('empty_list', 'initial_conditions'): FLOAT},
    loops={0: LoopSpec(header='for (variable_name, eqn) in self.Endogenous', index='a', modifies=['len.S', 'el.S', 'len.X', 'el.X'], invariants=[
               ('bounds', '0 <= a and a <= %s' % NE), ('outputs_are_new_lists', FRESH), ('inputs_untouched', INPUTS),
               ('sizes', 'len(self.AllVariables) == a and len(self.NonLagged) == a and len(self.EquationList) == a'),
               ('names', seg('self.AllVariables', '0', 'self.Endogenous', 0, 'a') + ' and ' + seg('self.NonLagged', '0', 'self.Endogenous', 0, 'a')),
               ('equations', seg('self.EquationList', '0', 'self.Endogenous', 1, 'a'))]),
           1: LoopSpec(header='for (variable_name, name_of_var) in self.Lagged', index='b', modifies=['len.S', 'el.S'], invariants=[
               ('bounds', '0 <= b and b <= %s' % NL), ('outputs_are_new_lists', FRESH), ('inputs_untouched', INPUTS),
               ('sizes', 'len(self.AllVariables) == %s + b and len(self.NonLagged) == %s and len(self.EquationList) == %s + b' % (NE, NE, NE)),
               ('names', seg('self.AllVariables', '0', 'self.Endogenous', 0, NE) + ' and ' + seg('self.NonLagged', '0', 'self.Endogenous', 0, NE) + ' and ' +
                         seg('self.AllVariables', NE, 'self.Lagged', 0, 'b')),
               ('equations', seg('self.EquationList', '0', 'self.Endogenous', 1, NE) + ' and ' + seg('self.EquationList', NE, 'self.Lagged', 0, 'b'))]),
           2: LoopSpec(header='for (variable_name, value) in self.Exogenous', index='c', modifies=['len.S', 'el.S'], invariants=[
               ('bounds', '0 <= c and c <= %s' % NX), ('outputs_are_new_lists', FRESH), ('inputs_untouched', INPUTS),
               ('sizes', 'len(self.AllVariables) == %s + %s + c and len(self.NonLagged) == %s + c and len(self.EquationList) == %s + %s + c' % (NE, NL, NE, NE, NL)),
               ('names', seg('self.AllVariables', '0', 'self.Endogenous', 0, NE) + ' and ' + seg('self.NonLagged', '0', 'self.Endogenous', 0, NE) + ' and ' +
                         seg('self.AllVariables', NE, 'self.Lagged', 0, NL) + ' and ' + seg('self.AllVariables', '%s + %s' % (NE, NL), 'self.Exogenous', 0, 'c') + ' and ' +
                         seg('self.NonLagged', NE, 'self.Exogenous', 0, 'c')),
               ('equations', seg('self.EquationList', '0', 'self.Endogenous', 1, NE) + ' and ' + seg('self.EquationList', NE, 'self.Lagged', 0, NL) + ' and ' +
                             seg('self.EquationList', '%s + %s' % (NE, NL), 'self.Exogenous', 0, 'c'))])},
    ensures=[('vector_lists_every_variable_once_in_order',
              'len(self.AllVariables) == %s + %s + %s and ' % (NE, NL, NX) + seg('self.AllVariables', '0', 'self.Endogenous', 0, NE) + ' and ' +
              seg('self.AllVariables', NE, 'self.Lagged', 0, NL) + ' and ' + seg('self.AllVariables', '%s + %s' % (NE, NL), 'self.Exogenous', 0, NX)),
             ('table_columns_are_the_non_lagged_variables',
              'len(self.NonLagged) == %s + %s and ' % (NE, NX) + seg('self.NonLagged', '0', 'self.Endogenous', 0, NE) + ' and ' + seg('self.NonLagged', NE, 'self.Exogenous', 0, NX)),
             ('equation_list_is_parallel',
              'len(self.EquationList) == len(self.AllVariables) and ' + seg('self.EquationList', '0', 'self.Endogenous', 1, NE) + ' and ' +
              seg('self.EquationList', NE, 'self.Lagged', 0, NL) + ' and ' + seg('self.EquationList', '%s + %s' % (NE, NL), 'self.Exogenous', 0, NX)),
             ('inputs_untouched', INPUTS)],
))

VL = 'self.VariableList'
HAS_T = "any(%s[j] == 't' for j in range(0, len(%s)))" % (VL, VL)
_hdr = fn(
    'sfc_models.base_solver.BaseSolver.CreateCsvString', name='sfc_models.base_solver.BaseSolver.CreateCsvString[header]',
    args=dict(self=Ref('BaseSolver')), returns=STR,
    requires=[('has_variables', 'len(%s) > 0' % VL)],
    hints={('empty_list', 'txt'): STR},
    ghost_after=[(r"re:out = '\\t'\.join\(varlist\) \+ '\\n'", '\n'.join([
        "_assert(%r, 'header_has_every_column_slot')" % ('len(varlist) == len(%s)' % VL),
        "_assert(%r, 'time_axis_first')" % ("implies(%s, varlist[0] == 't')" % HAS_T),
        "_assert(%r, 'order_kept_without_a_time_axis')" % ("implies(not %s, all(varlist[j] == %s[j] for j in range(0, len(varlist))))" % (HAS_T, VL)),
        "_assert(%r, 'no_variable_dropped')" % ('all(any(varlist[i] == %s[j] for i in range(0, len(varlist))) for j in range(0, len(%s)))' % (VL, VL)),
        "_assert(%r, 'no_column_invented')" % ('all(any(varlist[i] == %s[j] for j in range(0, len(%s))) for i in range(0, len(varlist)))' % (VL, VL)),
        "_assert(%r, 'stored_list_untouched')" % ('unchanged(%s) and lists_unchanged()' % VL),
    ]))],
    ensures=[('stored_list_untouched', 'unchanged(%s) and lists_unchanged()' % VL)],
    raises=[RaisesSpec('Exception', when='True')],
    loops={0: LoopSpec(index='row', invariants=[('frame', 'lists_unchanged()')], modifies=['len.*', 'el.*']),
           1: LoopSpec(index='col', invariants=[('frame', 'lists_unchanged()'), ('txt_fresh', 'fresh(txt)')], modifies=['len.*', 'el.*'])},
)
P.verify(_hdr)


def _scan_template(repo):
    """the template's RunOneStep defines the step counter k (as the module-level name the static Iterator reads) after advancing STEP and before the iteration"""
    key = [m for m in repo.files if m.endswith('iterative_machine_generator')]
    if not key:
        return [('step_counter_defined_before_the_iteration', False, 'module not found')]
    src = repo.files[key[0]][1]
    tree = ast.parse(src)
    tmpl = None
    for n in tree.body:
        if isinstance(n, ast.Assign) and isinstance(n.targets[0], ast.Name) and n.targets[0].id == 'template' and isinstance(n.value, ast.Constant):
            tmpl = n.value.value
    if tmpl is None:
        return [('step_counter_defined_before_the_iteration', False, 'template string not found')]
    body = tmpl.split('def RunOneStep(self):')[-1].split('def ')[0]
    lines = [l.strip() for l in body.split('\n')]
    try:
        i_step = lines.index('self.STEP += 1')
        i_glob = lines.index('global k')
        i_k = [i for i, l in enumerate(lines) if l.replace(' ', '') in ('k=float(self.STEP)', 'k=self.STEP')][0]
        i_iter = [i for i, l in enumerate(lines) if 'self.Iterator(' in l][0]
        ok = i_step < i_glob < i_k < i_iter
        detail = 'STEP advanced at line %d, k defined at %d, iteration at %d' % (i_step, i_k, i_iter)
    except (ValueError, IndexError):
        ok, detail = False, 'RunOneStep of the template does not define k from STEP before calling the Iterator'
    return [('step_counter_defined_before_the_iteration', ok, detail)]


P.scan('template', _scan_template)
P.bound('modules', 'dyn/C20.py', 'modules', 'random blocks with / without a user time axis, lags, initial conditions, constants, exogenous lists: module generated, imported and run: '
        '25 (quick) / 400 (thorough)', 'the generated module runs, satisfies the block equations for k >= 1, reproduces the in-process series from equal k = 0 values, table header')
