"""
common.py - declared field types of the repository's classes (object invariants assumed on read,
checked on write through the sorts).  Derived from the constructors in /repo, not from docs.
"""
from pyvc.types import *
from pyvc.spec import cls

S5 = Tup(STR, STR, STR, STR, STR)

# utils.TimeSeriesHolder(dict): name -> list of numbers
cls('TimeSeriesHolder', fields=dict(TimeSeriesName=STR, SortPriority=S5), dict_kv=(STR, List(FLOAT)))

# equation.py
# owner_ / pos_ are GHOST fields (set only by sidecar ghost code): the Equation whose TermList holds the term, and its index
cls('Term', fields=dict(Constant=FLOAT, Term=STR, IsSimple=BOOL, IsBlob=BOOL, owner_=Ref('Equation'), pos_=INT))
cls('Equation', fields=dict(LeftHandSide=STR, Description=STR, TermList=List(Ref('Term'))))
cls('EquationBlock', fields=dict(Equations=Dict(STR, Ref('Equation'))))

# equation_parser.EquationParser
cls('EquationParser', fields=dict(
    Endogenous=List(Tup(STR, STR)), Lagged=List(Tup(STR, STR)), Exogenous=List(Tup(STR, ANY)),
    Decoration=List(Tup(STR, STR)), InitialConditions=Dict(STR, STR), AllEquations=Dict(STR, STR),
    Tokens=Dict(STR, List(STR)), MaxTime=INT, Err_Tolerance=ANY))

# equation_solver.EquationSolver
cls('EquationSolver', fields=dict(
    TraceStep=Opt(INT), EquationString=STR, RunEquationReduction=BOOL, Parser=Ref('EquationParser'),
    VariableList=List(STR), TimeSeries=Ref('TimeSeriesHolder'),
    TimeSeriesInitialSteadyState=Ref('TimeSeriesHolder'), TimeSeriesStepTrace=Ref('TimeSeriesHolder'),
    MaxIterations=INT, MaxTime=Opt(INT), Functions=Dict(STR, FLOAT),
    ParameterErrorTolerance=Opt(FLOAT), ParameterSolveInitialSteadyState=BOOL,
    ParameterInitialSteadyStateMaxTime=INT, ParameterInitialSteadyStateErrorToler=FLOAT,
    ParameterInitialSteadyStateExcludedVariables=List(STR), ParameterInitialSteadyStateStepError=FLOAT))

# models.py
cls('EconomicObject', fields=dict(ID=INT, Parent=Opt(Ref('EconomicObject')), Code=STR, LongName=STR))
cls('EconomicObject$static', fields=dict(ID=INT))
cls('Model', fields=dict(
    CountryList=List(Ref('Country')), Exogenous=List(Tup(ANY, STR, STR)), InitialConditions=List(Tup(ANY, STR, STR)),
    FinalEquations=STR, MaxTime=INT,
    RegisteredCashFlows=List(Tup(Ref('Sector'), Ref('Sector'), STR, BOOL, BOOL)),
    Aliases=Dict(STR, Tup(Ref('Sector'), STR)), TimeSeriesCutoff=Opt(INT), TimeSeriesSupressTimeZero=BOOL,
    EquationSolver=Ref('EquationSolver'), GlobalVariables=List(Tup(STR, STR, STR)),
    IncomeExclusions=List(Tup(Ref('Sector'), STR)), CurrencyZoneList=List(Ref('CurrencyZone')),
    State=STR, DefaultCurrency=STR, ExternalSector=Opt(Ref('ExternalSector')),
    FinalEquationBlock=Ref('EquationBlock')))
cls('Country', fields=dict(Parent=Ref('Model'), SectorList=List(Ref('Sector')), CurrencyZone=Opt(Ref('CurrencyZone')), Currency=STR))
cls('CurrencyZone', fields=dict(Currency=STR, CountryList=List(Ref('Country'))))

# sector.py
cls('Sector', fields=dict(Parent=Ref('Country'), CurrencyZone=Ref('CurrencyZone'), FullCode=STR, HasF=BOOL, IsTaxable=BOOL,
                          EquationBlock=Ref('EquationBlock')))
cls('Market', fields=dict(ResidualSupply=Opt(Ref('Sector')), OtherSuppliers=List(Tup(Ref('Sector'), STR))))
cls('FinancialAssetMarket', fields=dict(IssuerShortCode=STR, SearchListSource=Ref('CurrencyZone')))

# base_solver.BaseSolver
cls('BaseSolver', fields=dict(VariableList=List(STR)))

# utils.Logger (class-level state)
cls('Logger$static', fields=dict(priority_cutoff=INT))
