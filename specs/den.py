"""
den.py - abstract view of an Equation:  Den(eq) = sum_i  Constant_i * V(Term_i)

V(text) is the value of an expression text under one arbitrary, fixed valuation of all variables
(an uninterpreted function: every statement is point-wise in the valuation, so one Skolem valuation
stands for all valuations).  The sum over the (unbounded) term list is a recursive spec function;
the solver is never asked to do induction: three lemmas (frame, one-element update, append) are
proved once by an explicit induction schema (base + step, arbitrary arrays) and their instances
between the entry state and the current state are supplied wherever Den is mentioned.
"""
import z3
from pyvc.types import *
from pyvc.spec import specfn
from pyvc.state import FAM_SORTS, fam_init, arr

RealS = z3.RealSort()
IntS = z3.IntSort()
StrS = z3.StringSort()
ArrC = z3.ArraySort(IntS, RealS)      # Term.Constant  : ref -> real
ArrT = z3.ArraySort(IntS, StrS)       # Term.Term      : ref -> text
ArrE = z3.ArraySort(IntS, IntS)       # list elements  : index -> ref

V = z3.Function('V', StrS, RealS)
S = z3.Function('SumTV', ArrC, ArrT, ArrE, IntS, RealS)
# real multiplication constant * value as an uninterpreted function + the (true) axioms that are needed:
# keeps every obligation linear (sound for proving: real multiplication is a model of these axioms)
Mul = z3.Function('Mul', RealS, RealS, RealS)


def mul_axioms():
    v = z3.Real(fresh_name('mv'))
    return [forall([v], Mul(z3.RealVal(1), v) == v, patterns=[Mul(z3.RealVal(1), v)]),
            forall([v], Mul(z3.RealVal(-1), v) == -v, patterns=[Mul(z3.RealVal(-1), v)]),
            forall([v], Mul(z3.RealVal(0), v) == 0, patterns=[Mul(z3.RealVal(0), v)])]


def mul_linear(a, b, v):
    """instance of (a + b) * v == a*v + b*v"""
    return Mul(a + b, v) == Mul(a, v) + Mul(b, v)


def term(C, T, E, j):
    return Mul(z3.Select(C, z3.Select(E, j)), V(z3.Select(T, z3.Select(E, j))))


def unfold(C, T, E, n):
    """definitional axioms of SumTV instantiated at n (and at 0)"""
    return [S(C, T, E, z3.IntVal(0)) == 0,
            z3.Implies(n > 0, S(C, T, E, n) == S(C, T, E, n - 1) + term(C, T, E, n - 1)),
            z3.Implies(n <= 0, S(C, T, E, n) == 0)]


def same_at(A, B, j):
    (C0, T0, E0), (C1, T1, E1) = A, B
    return z3.And(z3.Select(C0, z3.Select(E0, j)) == z3.Select(C1, z3.Select(E1, j)),
                  z3.Select(T0, z3.Select(E0, j)) == z3.Select(T1, z3.Select(E1, j)))


# ---- the three lemmas (statement builders) -------------------------------------------------------------
def lemma_frame(A, B, n):
    """all summands agree below n  =>  the sums agree"""
    j = z3.Int(fresh_name('lf'))
    return z3.Implies(z3.And(n >= 0, forall([j], z3.Implies(z3.And(0 <= j, j < n), same_at(A, B, j)))),
                      S(A[0], A[1], A[2], n) == S(B[0], B[1], B[2], n))


def lemma_update(A, B, n, i):
    """summands agree below n except at i, where only the constant may differ"""
    (C0, T0, E0), (C1, T1, E1) = A, B
    j = z3.Int(fresh_name('lu'))
    hyp = z3.And(0 <= i, i < n,
                 z3.Select(T0, z3.Select(E0, i)) == z3.Select(T1, z3.Select(E1, i)),
                 forall([j], z3.Implies(z3.And(0 <= j, j < n, j != i), same_at(A, B, j))))
    delta = term(C1, T1, E1, i) - term(C0, T0, E0, i)
    return z3.Implies(hyp, S(C1, T1, E1, n) == S(C0, T0, E0, n) + delta)


def lemma_append(A, B, n):
    """B has one more element than A and agrees below n"""
    (C0, T0, E0), (C1, T1, E1) = A, B
    j = z3.Int(fresh_name('la'))
    hyp = z3.And(n >= 0, forall([j], z3.Implies(z3.And(0 <= j, j < n), same_at(A, B, j))))
    return z3.Implies(hyp, S(C1, T1, E1, n + 1) == S(C0, T0, E0, n) + term(C1, T1, E1, n))


def induction_obligations():
    """[(name, hyps, goal)] - base and step of each lemma, for arbitrary arrays"""
    C0, C1 = z3.Consts('lC0 lC1', ArrC)
    T0, T1 = z3.Consts('lT0 lT1', ArrT)
    E0, E1 = z3.Consts('lE0 lE1', ArrE)
    A, B = (C0, T0, E0), (C1, T1, E1)
    n = z3.Int('ln')
    i = z3.Int('li')
    out = []
    ax0 = [S(C0, T0, E0, z3.IntVal(0)) == 0, S(C1, T1, E1, z3.IntVal(0)) == 0]
    step_ax = [n >= 0,
               S(C0, T0, E0, n + 1) == S(C0, T0, E0, n) + term(C0, T0, E0, n),
               S(C1, T1, E1, n + 1) == S(C1, T1, E1, n) + term(C1, T1, E1, n)]
    # frame
    out.append(('sum_frame/base', ax0, lemma_frame(A, B, z3.IntVal(0))))
    out.append(('sum_frame/step', ax0 + step_ax + [lemma_frame(A, B, n)], lemma_frame(A, B, n + 1)))
    # update (uses frame at n for the case i == n)
    out.append(('sum_update/base', ax0, lemma_update(A, B, z3.IntVal(0), i)))
    ii = z3.Int(fresh_name('li'))
    ih = forall([ii], lemma_update(A, B, n, ii))
    out.append(('sum_update/step', ax0 + step_ax + [ih, lemma_frame(A, B, n)], lemma_update(A, B, n + 1, i)))
    # append (is frame + one unfolding)
    out.append(('sum_append', ax0 + step_ax + [lemma_frame(A, B, n)], lemma_append(A, B, n)))
    return out


# ---- views on program states ------------------------------------------------------------------------------
def arrays_of(st, eq):
    """(C, T, E, n) of an Equation object in state st"""
    tl = st.get_field(eq, 'TermList')
    fc, _ = st.field_family('Term', 'Constant')
    ft, _ = st.field_family('Term', 'Term')
    C = st.heap[fc]
    T = st.heap[ft]
    E = st.list_elems(tl)
    n = st.list_len(tl)
    return C, T, E, n


def den_term(ctx, eq):
    C1, T1, E1, n1 = arrays_of(ctx.st, eq)
    facts = unfold(C1, T1, E1, n1)
    if ctx.st is not ctx.entry:
        C0, T0, E0, n0 = arrays_of(ctx.entry, eq)
        A, B = (C0, T0, E0), (C1, T1, E1)
        i = z3.Int(fresh_name('di'))
        facts += unfold(C0, T0, E0, n0)
        facts += unfold(C1, T1, E1, n0 + 1)
        facts += [lemma_frame(A, B, n0), lemma_append(A, B, n0),
                  forall([i], lemma_update(A, B, n0, i), patterns=[z3.Select(E1, i)])]
        # explicit instances at the loop indices in scope (the element that a loop body updated)
        for gname, gv in ctx.st.ghost.items():
            if getattr(gv, 'ty', None) is not None and gv.ty.kind == 'int':
                facts.append(lemma_update(A, B, n0, gv.t))
                c0 = z3.Select(C0, z3.Select(E0, gv.t))
                c1 = z3.Select(C1, z3.Select(E1, gv.t))
                facts.append(mul_linear(c0, c1 - c0, V(z3.Select(T0, z3.Select(E0, gv.t)))))
                facts.append(c0 + (c1 - c0) == c1)
        # ghost heap snapshots in scope (H = heap_now()): the frame lemma between each snapshot and the current state
        for gname, gv in ctx.st.ghost.items():
            if getattr(gv, 'ty', None) is not None and gv.ty.kind == 'heap' and gv.meta is not ctx.st and not gname.startswith('_'):
                try:
                    Ch, Th, Eh, nh = arrays_of(gv.meta, eq)
                except Exception:
                    continue
                facts += unfold(Ch, Th, Eh, nh)
                facts += [lemma_frame((Ch, Th, Eh), B, nh)]
    facts += mul_axioms()
    ctx.side.extend(facts)
    return S(C1, T1, E1, n1)


@specfn('Den')
def Den(ctx, eq):
    return SV(FLOAT, den_term(ctx, eq))


@specfn('V')
def Vf(ctx, text):
    return SV(FLOAT, V(text.t))


@specfn('TV')
def TV(ctx, t):
    """value of a Term object: Constant * V(text)"""
    c = ctx.st.get_field(t, 'Constant')
    x = ctx.st.get_field(t, 'Term')
    ctx.side.extend(mul_axioms())
    return SV(FLOAT, Mul(c.t, V(x.t)))


@specfn('eq_inv')
def eq_inv(ctx, eq):
    """object invariant of Equation (with the ghost fields owner_ / pos_ of its terms): every element of the term list is
    an allocated Term owned by this equation and knows its index (hence elements are pairwise distinct objects);
    non-blob terms have pairwise distinct texts; a blob can only be the first term and has Constant == 1"""
    st = ctx.st
    tl = st.get_field(eq, 'TermList')
    n = st.list_len(tl)
    E = st.list_elems(tl)
    C, T, B = (st.heap[st.field_family('Term', f)[0]] for f in ('Constant', 'Term', 'IsBlob'))
    O, Pz = (st.heap[st.field_family('Term', f)[0]] for f in ('owner_', 'pos_'))
    i, j = z3.Int(fresh_name('i')), z3.Int(fresh_name('j'))
    ei, ej = z3.Select(E, i), z3.Select(E, j)
    return mk_bool(z3.And(
        forall([i], z3.Implies(z3.And(0 <= i, i < n), z3.And(ei > 0, ei < st.alloc, z3.Select(O, ei) == eq.t, z3.Select(Pz, ei) == i)), patterns=[ei]),
        forall([i, j], z3.Implies(z3.And(0 <= i, i < j, j < n, z3.Not(z3.Select(B, ei)), z3.Not(z3.Select(B, ej))),
                                  z3.Select(T, ei) != z3.Select(T, ej)), patterns=[z3.MultiPattern(ei, ej)]),
        forall([i], z3.Implies(z3.And(1 <= i, i < n), z3.Not(z3.Select(B, ei))), patterns=[ei]),
        z3.Implies(z3.And(n > 0, z3.Select(B, z3.Select(E, 0))), z3.Select(C, z3.Select(E, 0)) == 1)))


@specfn('terms_frame')
def terms_frame(ctx, eq):
    """frame of a mutation of `eq`: every list other than eq.TermList is unchanged; Term.Constant of every object
    allocated at entry that is not owned by eq (ghost owner_, entry state) is unchanged; every other field of every
    object allocated at entry is unchanged"""
    st, old = ctx.st, ctx.entry
    tl = old.get_field(eq, 'TermList')
    O0 = old.heap[old.field_family('Term', 'owner_')[0]]
    r = z3.Int(fresh_name('r'))
    conj = []
    for name in sorted(FAM_SORTS):
        now = st.heap[name] if name in st.heap else fam_init(name)
        then = old.heap[name] if name in old.heap else fam_init(name)
        if now is then or z3.eq(now, then):
            continue
        live = z3.And(r > 0, r < old.alloc)
        if name.startswith('len.') or name.startswith('el.'):
            conj.append(forall([r], z3.Implies(z3.And(live, r != tl.t), z3.Select(now, r) == z3.Select(then, r)), patterns=[z3.Select(now, r)]))
        elif name == 'f.Term.Constant':
            conj.append(forall([r], z3.Implies(z3.And(live, z3.Select(O0, r) != eq.t), z3.Select(now, r) == z3.Select(then, r)), patterns=[z3.Select(now, r)]))
        elif name == 'tyof':
            continue
        elif name.startswith('g.'):
            conj.append(now == then)
        else:
            conj.append(forall([r], z3.Implies(live, z3.Select(now, r) == z3.Select(then, r)), patterns=[z3.Select(now, r)]))
    return mk_bool(z3.And(*conj) if conj else z3.BoolVal(True))


@specfn('mul')
def mul(ctx, a, b):
    """constant * value (uninterpreted real multiplication with the axioms in mul_axioms / mul_linear)"""
    from pyvc import ops
    ctx.side.extend(mul_axioms())
    return SV(FLOAT, Mul(ops.to_float(a).t, ops.to_float(b).t))


RhsText = z3.Function('rhs_text', ArrC, ArrT, z3.ArraySort(IntS, z3.BoolSort()), ArrE, IntS, StrS)


@specfn('rhs_text')
def rhs_text(ctx, eq):
    """the text GetRightHandSide renders: a function of the term objects' fields only"""
    st = ctx.st
    C, T, E, n = arrays_of(st, eq)
    fb, _ = st.field_family('Term', 'IsBlob')
    B = st.heap[fb]
    if ctx.st is not ctx.entry:
        # the rendering depends only on (Constant, Term, IsBlob) of the listed term objects, in order
        # (assumed: it is how GetRightHandSide reads them; its frame is verified in C12)
        e = ctx.entry
        C0, T0, E0, n0 = arrays_of(e, eq)
        B0 = e.heap[e.field_family('Term', 'IsBlob')[0]]
        j = z3.Int(fresh_name('rj'))
        same = z3.And(n == n0, forall([j], z3.Implies(z3.And(0 <= j, j < n0), z3.And(
            same_at((C0, T0, E0), (C, T, E), j), z3.Select(B0, z3.Select(E0, j)) == z3.Select(B, z3.Select(E, j))))))
        ctx.side.append(z3.Implies(same, RhsText(C, T, B, E, n) == RhsText(C0, T0, B0, E0, n0)))
    return SV(STR, RhsText(C, T, B, E, n))


@specfn('eq_sep')
def eq_sep(ctx, a, b):
    """two Equation objects with distinct term lists (their terms are disjoint by ghost ownership)"""
    st = ctx.st
    ta, tb = st.get_field(a, 'TermList'), st.get_field(b, 'TermList')
    return mk_bool(z3.And(a.t != b.t, ta.t != tb.t))


@specfn('mod_of')
def mod_of(ctx, sector):
    """the Model a sector belongs to (result of GetModel: root of the Parent chain); an uninterpreted function of the object"""
    f = z3.Function('model_of', IntS, IntS)
    return SV(Ty('ref', 'Model'), f(sector.t))


@specfn('terms_frame2')
def terms_frame2(ctx, a, b):
    """lists other than the two term lists are unchanged; Term.Constant of old objects owned by neither is unchanged"""
    st, old = ctx.st, ctx.entry
    ta, tb = old.get_field(a, 'TermList'), old.get_field(b, 'TermList')
    O0 = old.heap[old.field_family('Term', 'owner_')[0]]
    r = z3.Int(fresh_name('r'))
    conj = []
    for name in sorted(FAM_SORTS):
        now = st.heap[name] if name in st.heap else fam_init(name)
        then = old.heap[name] if name in old.heap else fam_init(name)
        if now is then or z3.eq(now, then):
            continue
        live = z3.And(r > 0, r < old.alloc)
        if name.startswith('len.') or name.startswith('el.'):
            conj.append(forall([r], z3.Implies(z3.And(live, r != ta.t, r != tb.t), z3.Select(now, r) == z3.Select(then, r)), patterns=[z3.Select(now, r)]))
        elif name == 'f.Term.Constant':
            conj.append(forall([r], z3.Implies(z3.And(live, z3.Select(O0, r) != a.t, z3.Select(O0, r) != b.t), z3.Select(now, r) == z3.Select(then, r)), patterns=[z3.Select(now, r)]))
        elif name in ('f.Term.Term', 'f.Term.IsBlob', 'f.Term.IsSimple', 'f.Term.owner_', 'f.Term.pos_'):
            conj.append(forall([r], z3.Implies(live, z3.Select(now, r) == z3.Select(then, r)), patterns=[z3.Select(now, r)]))
    return mk_bool(z3.And(*conj) if conj else z3.BoolVal(True))


@specfn('eq_own')
def eq_own(ctx, eq):
    """ownership part of eq_inv: elements of the term list are allocated Term objects owned by this equation at their index"""
    st = ctx.st
    tl = st.get_field(eq, 'TermList')
    n = st.list_len(tl)
    E = st.list_elems(tl)
    O, Pz = (st.heap[st.field_family('Term', f)[0]] for f in ('owner_', 'pos_'))
    i = z3.Int(fresh_name('i'))
    ei = z3.Select(E, i)
    return mk_bool(forall([i], z3.Implies(z3.And(0 <= i, i < n), z3.And(ei > 0, ei < st.alloc, z3.Select(O, ei) == eq.t, z3.Select(Pz, ei) == i)), patterns=[ei]))
