"""
Contracts of equation.Term / equation.Equation used at call sites (and verified in C06 / C12).
"""
from pyvc.types import *
from pyvc.spec import fn, RaisesSpec, LoopSpec
from . import common, lib, den  # noqa

SQUEEZE = "nospace(term)"

# Term(term: Term)  -- field-wise copy into the new object
TERM_COPY = fn(
    'sfc_models.equation.Term.__init__', name='sfc_models.equation.Term.__init__[Term]',
    args=dict(self=Ref('Term'), term=Ref('Term'), is_blob=BOOL),
    modifies=['f.Term.Constant', 'f.Term.Term', 'f.Term.IsSimple', 'f.Term.IsBlob'],
    ensures=[('copy', 'self.Constant == old(term.Constant) and self.Term == old(term.Term) and '
                      'self.IsBlob == old(term.IsBlob) and self.IsSimple == old(term.IsSimple)'),
             ('others_untouched', "fields_unchanged_but(self, 'Term.Constant', 'Term.Term', 'Term.IsSimple', 'Term.IsBlob')")],
)

# Term(term: str, is_blob)
#   blob:      Constant 1, text = the string with all spaces removed
#   otherwise: sign (one optional pair of brackets with an inner sign) folded into Constant in {1,-1};
#              V(squeezed string) == Constant * V(text)  for every valuation   (T-STA / bounded, see C12)
TERM_PARSE = fn(
    'sfc_models.equation.Term.__init__', name='sfc_models.equation.Term.__init__[str]',
    args=dict(self=Ref('Term'), term=STR, is_blob=BOOL),
    modifies=['f.Term.Constant', 'f.Term.Term', 'f.Term.IsSimple', 'f.Term.IsBlob'],
    ensures=[('flag', 'self.IsBlob == is_blob and self.IsSimple'),
             ('blob_verbatim', 'implies(is_blob, self.Constant == 1.0 and self.Term == nospace(term))'),
             ('sign_folded', 'implies(not is_blob, (self.Constant == 1.0 or self.Constant == -1.0) and is_product(self.Term))'),
             ('value', 'V(nospace(term)) == mul(self.Constant, V(self.Term))'),
             ('deterministic', 'implies(not is_blob, self.Term == term_text(term) and self.Constant == term_sign(term))'),
             ('others_untouched', "fields_unchanged_but(self, 'Term.Constant', 'Term.Term', 'Term.IsSimple', 'Term.IsBlob')")],
    # which outcome a string gets is a function of the (squeezed) string: the constructor is deterministic
    raises=[RaisesSpec('SyntaxError', when='not is_blob and term_outcome(term) == 1', iff=True, ensures=[('others_untouched', "fields_unchanged_but(self, 'Term.Constant', 'Term.Term', 'Term.IsSimple', 'Term.IsBlob')")]),
            RaisesSpec('LogicError', when='not is_blob and term_outcome(term) == 2', iff=True, ensures=[('others_untouched', "fields_unchanged_but(self, 'Term.Constant', 'Term.Term', 'Term.IsSimple', 'Term.IsBlob')")]),
            RaisesSpec('NotImplementedError', when='not is_blob and term_outcome(term) == 3', iff=True, ensures=[('others_untouched', "fields_unchanged_but(self, 'Term.Constant', 'Term.Term', 'Term.IsSimple', 'Term.IsBlob')")])],
)

