"""
lib.py - spec functions shared by the property modules.
"""
import z3
from pyvc.types import *
from pyvc.spec import specfn
from pyvc.state import FAM_SORTS, fam_init


def _fam_now(st, name):
    return st.heap[name] if name in st.heap else fam_init(name)


def _unchanged_families(ctx, prefixes, below=None):
    """forall r allocated at function entry: family[r] is the same now as at entry"""
    st, old = ctx.st, ctx.entry
    r = z3.Int(fresh_name('r'))
    conj = []
    for name in sorted(FAM_SORTS):
        if not any(name == p or name.startswith(p) for p in prefixes):
            continue
        now, then = _fam_now(st, name), _fam_now(old, name)
        if now is then or z3.eq(now, then):
            continue
        conj.append(forall([r], z3.Implies(z3.And(r > 0, r < old.alloc), z3.Select(now, r) == z3.Select(then, r)),
                              patterns=[z3.Select(now, r)]))
    return mk_bool(z3.And(*conj) if conj else z3.BoolVal(True))


@specfn('lists_unchanged')
def lists_unchanged(ctx):
    return _unchanged_families(ctx, ['len', 'el.'])


@specfn('dicts_unchanged')
def dicts_unchanged(ctx):
    return _unchanged_families(ctx, ['dh.', 'dv.', 'dk'])


@specfn('fields_unchanged')
def fields_unchanged(ctx, *names):
    """fields_unchanged('Class.field', ...): those field families agree with the entry state on old objects"""
    pre = []
    for n in names:
        s = n.t.as_string() if hasattr(n.t, 'as_string') else str(n.t)
        pre.append('f.' + s)
    return _unchanged_families(ctx, pre)


@specfn('heap_unchanged_except')
def heap_unchanged_except(ctx, *names):
    """every heap family except the named ones agrees with the entry state on objects allocated at entry"""
    skip = set()
    for n in names:
        skip.add(n.t.as_string())
    st, old = ctx.st, ctx.entry
    r = z3.Int(fresh_name('r'))
    conj = []
    for name in sorted(FAM_SORTS):
        if name in skip or any(name.startswith(s[:-1]) for s in skip if s.endswith('*')):
            continue
        now, then = _fam_now(st, name), _fam_now(old, name)
        if now is then or z3.eq(now, then):
            continue
        if name.startswith('g.'):
            conj.append(now == then)
            continue
        conj.append(forall([r], z3.Implies(z3.And(r > 0, r < old.alloc), z3.Select(now, r) == z3.Select(then, r)),
                              patterns=[z3.Select(now, r)]))
    return mk_bool(z3.And(*conj) if conj else z3.BoolVal(True))
