"""
lib.py - spec functions shared by the property modules.
"""
import z3
from pyvc.types import *
from pyvc.spec import specfn
from pyvc.state import FAM_SORTS, fam_init


def _fam_now(st, name):
    return st.heap[name] if name in st.heap else fam_init(name)


def _unchanged_families(ctx, prefixes, below=None):
    """forall r allocated at function entry: family[r] is the same now as at entry"""
    st, old = ctx.st, ctx.entry
    r = z3.Int(fresh_name('r'))
    conj = []
    for name in sorted(FAM_SORTS):
        if not any(name == p or name.startswith(p) for p in prefixes):
            continue
        now, then = _fam_now(st, name), _fam_now(old, name)
        if now is then or z3.eq(now, then):
            continue
        conj.append(forall([r], z3.Implies(z3.And(r > 0, r < old.alloc), z3.Select(now, r) == z3.Select(then, r)),
                              patterns=[z3.Select(now, r)]))
    return mk_bool(z3.And(*conj) if conj else z3.BoolVal(True))


@specfn('lists_unchanged')
def lists_unchanged(ctx):
    return _unchanged_families(ctx, ['len.', 'el.'])


@specfn('dicts_unchanged')
def dicts_unchanged(ctx):
    return _unchanged_families(ctx, ['dh.', 'dv.', 'dk'])


@specfn('fields_unchanged')
def fields_unchanged(ctx, *names):
    """fields_unchanged('Class.field', ...): those field families agree with the entry state on old objects"""
    pre = []
    for n in names:
        s = n.t.as_string() if hasattr(n.t, 'as_string') else str(n.t)
        pre.append('f.' + s)
    return _unchanged_families(ctx, pre)


@specfn('heap_unchanged_except')
def heap_unchanged_except(ctx, *names):
    """every heap family except the named ones agrees with the entry state on objects allocated at entry"""
    skip = set()
    for n in names:
        skip.add(n.t.as_string())
    st, old = ctx.st, ctx.entry
    r = z3.Int(fresh_name('r'))
    conj = []
    for name in sorted(FAM_SORTS):
        if name in skip or any(name.startswith(s[:-1]) for s in skip if s.endswith('*')):
            continue
        now, then = _fam_now(st, name), _fam_now(old, name)
        if now is then or z3.eq(now, then):
            continue
        if name.startswith('g.'):
            conj.append(now == then)
            continue
        conj.append(forall([r], z3.Implies(z3.And(r > 0, r < old.alloc), z3.Select(now, r) == z3.Select(then, r)),
                              patterns=[z3.Select(now, r)]))
    return mk_bool(z3.And(*conj) if conj else z3.BoolVal(True))


@specfn('lists_unchanged_except_series_of')
def lists_unchanged_except_series_of(ctx, solver):
    """every list allocated at entry that is not one of solver.TimeSeries's series (entry state) is unchanged"""
    st, old = ctx.st, ctx.entry
    r = z3.Int(fresh_name('r'))
    k = z3.String(fresh_name('k'))
    ts = old.get_field(solver, 'TimeSeries')
    kty, vty = old.dict_types(ts)
    has = z3.Select(_fam_now(old, old._dh(kty, vty)), ts.t)
    dv = z3.Select(_fam_now(old, old._dv(kty, vty)), ts.t)
    is_series = z3.Exists([k], z3.And(z3.Select(has, k), z3.Select(dv, k) == r))
    conj = []
    for name in sorted(FAM_SORTS):
        if not (name.startswith('len.') or name.startswith('el.')):
            continue
        now, then = _fam_now(st, name), _fam_now(old, name)
        if now is then or z3.eq(now, then):
            continue
        conj.append(forall([r], z3.Implies(z3.And(r > 0, r < old.alloc, z3.Not(is_series)), z3.Select(now, r) == z3.Select(then, r)),
                           patterns=[z3.Select(now, r)]))
    return mk_bool(z3.And(*conj) if conj else z3.BoolVal(True))


@specfn('fresh_lists_unchanged_since')
def fresh_lists_unchanged_since(ctx, snap, *except_lists):
    """lists allocated after function entry and before the snapshot (other than the named ones) have the
    contents they had at the snapshot"""
    st, old, h = ctx.st, ctx.entry, snap.meta
    r = z3.Int(fresh_name('r'))
    conj = []
    guard = [r >= old.alloc, r < h.alloc] + [r != x.t for x in except_lists]
    for name in sorted(FAM_SORTS):
        if not (name.startswith('len.') or name.startswith('el.')):
            continue
        now, then = _fam_now(st, name), _fam_now(h, name)
        if now is then or z3.eq(now, then):
            continue
        conj.append(forall([r], z3.Implies(z3.And(*guard), z3.Select(now, r) == z3.Select(then, r)), patterns=[z3.Select(now, r)]))
    return mk_bool(z3.And(*conj) if conj else z3.BoolVal(True))


@specfn('lists_unchanged_from')
def lists_unchanged_from(ctx, k):
    """lists allocated at entry: same length; float elements at index >= k unchanged; all other elements unchanged"""
    st, old = ctx.st, ctx.entry
    r = z3.Int(fresh_name('r'))
    j = z3.Int(fresh_name('j'))
    conj = []
    fkey = 'el.' + sortkey(FLOAT)
    for name in sorted(FAM_SORTS):
        if not (name.startswith('len.') or name.startswith('el.')):
            continue
        now, then = _fam_now(st, name), _fam_now(old, name)
        if now is then or z3.eq(now, then):
            continue
        if name == fkey:
            conj.append(forall([r, j], z3.Implies(z3.And(r > 0, r < old.alloc, j >= k.t),
                                                  z3.Select(z3.Select(now, r), j) == z3.Select(z3.Select(then, r), j)),
                               patterns=[z3.Select(z3.Select(now, r), j)]))
        else:
            conj.append(forall([r], z3.Implies(z3.And(r > 0, r < old.alloc), z3.Select(now, r) == z3.Select(then, r)),
                               patterns=[z3.Select(now, r)]))
    return mk_bool(z3.And(*conj) if conj else z3.BoolVal(True))


@specfn('last_of')
def last_of(ctx, solver, name):
    ts = ctx.st.get_field(solver, 'TimeSeries')
    lst = ctx.st.dict_get(ts, name)
    return ctx.st.list_get(lst, ctx.st.list_len(lst) - 1)


@specfn('prev_of')
def prev_of(ctx, solver, name):
    ts = ctx.st.get_field(solver, 'TimeSeries')
    lst = ctx.st.dict_get(ts, name)
    return ctx.st.list_get(lst, ctx.st.list_len(lst) - 2)


@specfn('all_series_finite')
def all_series_finite(ctx, holder):
    """every stored value of every series of the holder is a finite number (no inf / nan)"""
    from pyvc import ops
    if not ops.is_xreal():
        return mk_bool(True)
    st = ctx.st
    k = z3.String(fresh_name('s'))
    j = z3.Int(fresh_name('j'))
    name = SV(STR, k)
    lst = st.dict_get(holder, name)
    v = st.list_get(lst, j)
    return mk_bool(forall([k, j], z3.Implies(z3.And(st.dict_has(holder, name), 0 <= j, j < st.list_len(lst)), ops.xr_tag(v.t) == FIN),
                          patterns=[v.t]))


@specfn('fields_unchanged_but')
def fields_unchanged_but(ctx, obj, *names):
    """the named field families changed at `obj` only; every other heap family is unchanged (objects allocated at entry)"""
    fams = set('f.' + n.t.as_string() for n in names)
    st, old = ctx.st, ctx.entry
    r = z3.Int(fresh_name('r'))
    conj = []
    for name in sorted(FAM_SORTS):
        now, then = _fam_now(st, name), _fam_now(old, name)
        if now is then or z3.eq(now, then) or name == 'tyof':
            continue
        if name.startswith('g.'):
            conj.append(now == then)
            continue
        guard = z3.And(r > 0, r < old.alloc)
        if name in fams:
            guard = z3.And(guard, r != obj.t)
        conj.append(forall([r], z3.Implies(guard, z3.Select(now, r) == z3.Select(then, r)), patterns=[z3.Select(now, r)]))
    return mk_bool(z3.And(*conj) if conj else z3.BoolVal(True))


NoSpace = z3.Function('py_nospace', z3.StringSort(), z3.StringSort())
IsProduct = z3.Function('is_product_text', z3.StringSort(), z3.BoolSort())


@specfn('nospace')
def nospace(ctx, s):
    """str(term).strip().replace(' ', '')  (T-LIB: stripping first does not matter)"""
    ctx.side.append(NoSpace(ops_strip(s.t)) == NoSpace(s.t))
    return SV(STR, NoSpace(s.t))


@specfn('is_product')
def is_product(ctx, s):
    """text is NAME|NUMBER [(*|/) NAME|NUMBER]  (T-TOK: decided by CPython's tokenizer)"""
    return mk_bool(IsProduct(s.t))


@specfn('old_objects_unchanged_except_dict')
def old_objects_unchanged_except_dict(ctx, *ds):
    """every heap family agrees with the entry state on objects allocated at entry, except the dict families at the
    dicts `ds` and their (ghost) key lists"""
    st, old = ctx.st, ctx.entry
    r = z3.Int(fresh_name('r'))
    conj = []
    kls = [old.dict_keylist(d) for d in ds]
    for name in sorted(FAM_SORTS):
        now, then = _fam_now(st, name), _fam_now(old, name)
        if now is then or z3.eq(now, then) or name == 'tyof':
            continue
        if name.startswith('g.'):
            conj.append(now == then)
            continue
        guard = z3.And(r > 0, r < old.alloc)
        if name.startswith('dh.') or name.startswith('dv.') or name == 'dk':
            guard = z3.And(guard, *[r != d.t for d in ds])
        if name.startswith('len.') or name.startswith('el.'):
            # only lists of the key lists' own element sort can be a key list
            guard = z3.And(guard, *[r != kl.t for kl in kls if name.split('.', 1)[1] == sortkey(kl.ty.args[0])])
        conj.append(forall([r], z3.Implies(guard, z3.Select(now, r) == z3.Select(then, r)), patterns=[z3.Select(now, r)]))
    return mk_bool(z3.And(*conj) if conj else z3.BoolVal(True))


TermText = z3.Function('term_text', z3.StringSort(), z3.StringSort())
TermSign = z3.Function('term_sign', z3.StringSort(), z3.RealSort())


@specfn('term_text')
def term_text(ctx, s):
    """text of the Term that Term(s) constructs (function of the squeezed string)"""
    ctx.side.append(NoSpace(ops_strip(s.t)) == NoSpace(s.t))
    return SV(STR, TermText(NoSpace(s.t)))


@specfn('term_sign')
def term_sign(ctx, s):
    return SV(FLOAT, TermSign(NoSpace(s.t)))


def ops_strip(t):
    from pyvc import ops
    return ops.Strip(t)


TermOutcome = z3.Function('term_outcome', z3.StringSort(), z3.IntSort())


@specfn('term_outcome')
def term_outcome(ctx, s):
    """0: Term(s) is accepted; 1/2/3: SyntaxError / LogicError / NotImplementedError (function of the squeezed string)"""
    ctx.side.append(NoSpace(ops_strip(s.t)) == NoSpace(s.t))
    return SV(INT, TermOutcome(NoSpace(s.t)))


@specfn('dict_same_as')
def dict_same_as(ctx, snap, d):
    """the dict object d has exactly the keys / values / key order it had in the snapshot"""
    st, h = ctx.st, snap.meta
    kty, vty = st.dict_types(d)
    conj = []
    for fam in (st._dh(kty, vty), st._dv(kty, vty), st._dk()):
        conj.append(z3.Select(_fam_now(st, fam), d.t) == z3.Select(_fam_now(h, fam), d.t))
    kl = h.dict_keylist(d)
    lf = st.len_family(kty)
    conj.append(z3.Select(_fam_now(st, lf), kl.t) == z3.Select(_fam_now(h, lf), kl.t))
    ef = st.el_family(kty)
    conj.append(z3.Select(_fam_now(st, ef), kl.t) == z3.Select(_fam_now(h, ef), kl.t))
    return mk_bool(z3.And(*conj))


@specfn('old_lists_only_extended')
def old_lists_only_extended(ctx):
    """every list allocated at entry still has its old elements at the old indices (it may only have grown)"""
    st, old = ctx.st, ctx.entry
    r = z3.Int(fresh_name('r'))
    j = z3.Int(fresh_name('j'))
    conj = []
    live = z3.And(r > 0, r < old.alloc)
    for name in sorted(FAM_SORTS):
        if not name.startswith('el.'):
            continue
        lname = 'len.' + name[3:]
        if lname not in FAM_SORTS:
            continue
        now, then = _fam_now(st, name), _fam_now(old, name)
        ln_now, ln_then = _fam_now(st, lname), _fam_now(old, lname)
        if not (ln_now is ln_then or z3.eq(ln_now, ln_then)):
            conj.append(forall([r], z3.Implies(live, z3.Select(ln_now, r) >= z3.Select(ln_then, r)), patterns=[z3.Select(ln_now, r)]))
        if now is then or z3.eq(now, then):
            continue
        conj.append(forall([r, j], z3.Implies(z3.And(live, 0 <= j, j < z3.Select(ln_then, r)),
                                              z3.Select(z3.Select(now, r), j) == z3.Select(z3.Select(then, r), j)),
                           patterns=[z3.Select(z3.Select(now, r), j)]))
    return mk_bool(z3.And(*conj) if conj else z3.BoolVal(True))


@specfn('list_same_as')
def list_same_as(ctx, snap, lst):
    """the list object has the length and elements it had in the snapshot"""
    st, h = ctx.st, snap.meta
    return mk_bool(z3.And(st.list_len(lst) == h.list_len(lst), st.list_elems(lst) == h.list_elems(lst)))


@specfn('lists_unchanged_but')
def lists_unchanged_but(ctx, *lsts):
    """every list allocated at entry other than the given ones is unchanged"""
    st, old = ctx.st, ctx.entry
    r = z3.Int(fresh_name('r'))
    conj = []
    for name in sorted(FAM_SORTS):
        if not (name.startswith('len.') or name.startswith('el.')):
            continue
        now, then = _fam_now(st, name), _fam_now(old, name)
        if now is then or z3.eq(now, then):
            continue
        conj.append(forall([r], z3.Implies(z3.And(r > 0, r < old.alloc, *[r != l_.t for l_ in lsts]), z3.Select(now, r) == z3.Select(then, r)), patterns=[z3.Select(now, r)]))
    return mk_bool(z3.And(*conj) if conj else z3.BoolVal(True))


@specfn('plain_name')
def plain_name(ctx, s):
    """a name that Equation.__init__ takes as it is: no '#' (start of a description) and no '=' (start of an expression)"""
    return mk_bool(z3.And(z3.Not(z3.Contains(s.t, z3.StringVal('#'))), z3.Not(z3.Contains(s.t, z3.StringVal('=')))))
