"""
Contracts of models / sector helpers used at call sites.
"""
from pyvc.types import *
from pyvc.spec import fn, RaisesSpec, LoopSpec
from . import common, lib, den, equation_contracts  # noqa

fn('sfc_models.models.EconomicObject.GetModel', args=dict(self=Ref('EconomicObject')), returns=Ref('Model'),
   ensures=[('allocated', 'allocated(result)'), ('the_model', 'result is mod_of(self)')])

# Sector.GetVariables / EquationBlock.GetEquationList: sorted list of the defined names
for _q, _blk in (('sfc_models.sector.Sector.GetVariables', 'self.EquationBlock.Equations'),
                 ('sfc_models.equation.EquationBlock.GetEquationList', 'self.Equations')):
    fn(_q, args=dict(self=Ref('Sector' if 'Sector' in _q else 'EquationBlock')), returns=List(STR),
       ensures=[('fresh', 'fresh(result)'),
                ('exactly_the_defined_names', 'all(has(%s, s) == any(result[i] == s for i in range(0, len(result))) for s in strings())' % _blk)])

# Sector.AddVariable(varname, desc, eqn: str): (re)defines varname as the blob expression eqn.
# Verified in C11 (through the contract of Equation.__init__ for a list of terms, also verified there) for identifier-shaped names:
# Equation.__init__ re-reads a name containing '#' or '=' as "name # description" / "name = expression", hence the precondition.
ADDVARIABLE = fn(
    'sfc_models.sector.Sector.AddVariable',
    args=dict(self=Ref('Sector'), varname=STR, desc=Opt(STR), eqn=STR),
    # identifier-shaped names: Equation.__init__ re-reads a name that contains '#' or '=' as "name # description" / "name = expression"
    requires=[('plain_name', "not ('#' in varname) and not ('=' in varname)")],
    modifies=['len.R', 'el.R', 'len.S', 'el.S', 'dh.S.R', 'dv.S.R', 'dk', 'tyof', 'f.Equation.*', 'f.Term.*'],      # lists: the new term list, the key-order list
    ensures=[('defined', 'has(self.EquationBlock.Equations, varname)'),
             ('new_equation_invariant', 'eq_inv(self.EquationBlock.Equations[varname])'),
             ('fresh_equation', 'fresh(self.EquationBlock.Equations[varname]) and fresh(self.EquationBlock.Equations[varname].TermList) and '
                                'len(self.EquationBlock.Equations[varname].TermList) == 1 and fresh(self.EquationBlock.Equations[varname].TermList[0])'),
             ('is_the_blob', 'self.EquationBlock.Equations[varname].TermList[0].IsBlob and self.EquationBlock.Equations[varname].TermList[0].Constant == 1.0 and '
                             'self.EquationBlock.Equations[varname].TermList[0].Term == nospace(eqn) and self.EquationBlock.Equations[varname].LeftHandSide == varname'),
             ('other_names_kept', 'all(implies(s != varname, has(self.EquationBlock.Equations, s) == old(has(self.EquationBlock.Equations, s)) and '
                                  'self.EquationBlock.Equations[s] is old(self.EquationBlock.Equations[s])) for s in strings())'),
             ('old_objects_untouched', "old_objects_unchanged_except_dict(self.EquationBlock.Equations)"),
             ('key_order_list_is_new_or_kept', 'fresh(keys(self.EquationBlock.Equations)) or keys(self.EquationBlock.Equations) is old(keys(self.EquationBlock.Equations))')],
    raises=[RaisesSpec('ValueError', when="'__' in varname", iff=True, ensures=[('nothing_changed', "heap_unchanged_except('tyof')")])],
)
