"""
Contracts of EquationSolver methods that other functions call (assumed at the call sites; the ones
that are verified against their own bodies are listed in the property modules that do so).
"""
from pyvc.types import *
from pyvc.spec import fn, RaisesSpec
from . import common, lib  # noqa

# copy.deepcopy(self)  (T-LIB: fresh, disjoint, field-wise equal object graph) -- trusted, not verified
GETCOPY = fn(
    'sfc_models.equation_solver.EquationSolver._GetCopy',
    args=dict(self=Ref('EquationSolver')),
    returns=Ref('EquationSolver'),
    modifies=['f.*', 'len.*', 'el.*', 'dh.*', 'dv.*', 'dk', 'tyof'],
    ensures=[
        ('old_heap_untouched', "heap_unchanged_except('tyof')"),
        ('copy_fresh', 'fresh(result) and fresh(result.Parser) and fresh(result.TimeSeries) and fresh(result.Parser.Exogenous)'
                       ' and fresh(result.TimeSeriesInitialSteadyState) and fresh(result.TimeSeriesStepTrace)'),
        ('series_fresh', 'all(implies(has(result.TimeSeries, s), fresh(result.TimeSeries[s])) for s in strings())'),
        ('same_series_names', 'all(has(result.TimeSeries, s) == old(has(self.TimeSeries, s)) for s in strings())'),
        ('same_series_values', 'all(implies(has(result.TimeSeries, s), len(result.TimeSeries[s]) == old(len(self.TimeSeries[s])) and '
                               'all(same(result.TimeSeries[s][j], old(self.TimeSeries[s][j])) for j in range(0, len(result.TimeSeries[s])))) for s in strings())'),
        ('same_holder_invariant', 'result.TimeSeries.SortPriority == old(self.TimeSeries.SortPriority)'),
        ('same_scalars', 'result.MaxIterations == old(self.MaxIterations) and same(result.ParameterErrorTolerance, old(self.ParameterErrorTolerance))'),
    ],
)

# SolveStep(step): what callers rely on.  Verified against SolveStep/_SolveStep under C10/C17.
SOLVESTEP = fn(
    'sfc_models.equation_solver.EquationSolver.SolveStep',
    args=dict(self=Ref('EquationSolver'), step=INT),
    modifies=['len.*', 'el.*', 'dh.*', 'dv.*', 'dk', 'f.EquationSolver.TimeSeriesStepTrace', 'tyof'],
    ensures=[
        # only the series lists of this solver (and, when tracing, its step-trace holder) are written
        ('other_lists_untouched', 'lists_unchanged_except_series_of(self)'),
        ('no_trace_no_dict_change', "implies(is_none(old(self.TraceStep)), heap_unchanged_except('tyof', 'len.*', 'el.*'))"),
        # C02: a period is only reported (appended) with finite values
        ('reported_values_finite', 'implies(old(all_series_finite(self.TimeSeries)), all_series_finite(self.TimeSeries))'),
    ],
    raises=[RaisesSpec('Exception', when='True', ensures=[
        ('other_lists_untouched', 'lists_unchanged_except_series_of(self)'),
        ('no_trace_no_dict_change', "implies(is_none(old(self.TraceStep)), heap_unchanged_except('tyof', 'len.*', 'el.*'))"),
    ])],
)
