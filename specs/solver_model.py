"""
Model of eval() as used by the solver (T-EVAL), shared by C02 / C10 / C11 / C17.

eval(eqn, globals(), env) with env a dict name -> number:
    outcome code  EvalE(eqn, has, val) in {0 ok, 1 ZeroDivisionError, 2 ValueError, 3 OverflowError, 4 NameError, 5 other}
    value         EvalR(eqn, has, val): any extended real (finite, +-inf, nan) when the code is 0
Both are uninterpreted functions of the text and the environment (keys + values): user arithmetic is opaque.
Function objects registered through AddFunction live in the same environment; they are modelled as opaque
numbers that no arithmetic of the solver itself touches (names of functions and variables are distinct).
"""
import ast
import z3
from pyvc.types import *
from pyvc import externs, ops
from pyvc.spec import specfn

StrS = z3.StringSort()
HasS = z3.ArraySort(StrS, z3.BoolSort())
ValS = z3.ArraySort(StrS, XR)
EvalR = z3.Function('EvalR', StrS, HasS, ValS, XR)
EvalE = z3.Function('EvalE', StrS, HasS, ValS, z3.IntSort())
EXC = {1: 'ZeroDivisionError', 2: 'ValueError', 3: 'OverflowError', 4: 'NameError', 5: 'OtherError'}


def env_arrays(st, d):
    kty, vty = st.dict_types(d)
    H = z3.Select(st.heap[st._dh(kty, vty)], d.t)
    Vv = z3.Select(st.heap[st._dv(kty, vty)], d.t)
    return H, Vv


def install(E):
    def b_eval(e, n, pos, kws, st, k):
        if len(n.args) != 3:
            raise Unsupported('eval with %d arguments' % len(n.args))
        def got(s, vs):
            eqn, env = vs
            if eqn.ty.kind != 'str' or not (env.ty.kind == 'dict'):
                raise Unsupported('eval(%s, .., %s)' % (eqn.ty, env.ty))
            H, Vv = env_arrays(s, env)
            code = EvalE(eqn.t, H, Vv)
            s.assume(z3.And(code >= 0, code <= 5))

            def outcome(c):
                def kk(s2):
                    e.raise_(s2, EXC[c], 'eval line %s' % n.lineno)
                return kk

            def ok(s2):
                v = SV(FLOAT, EvalR(eqn.t, H, Vv))
                s2.assume(ops.xr_wf(v.t))
                k(s2, v)

            def chain(c, s2):
                if c > 5:
                    return ok(s2)
                e.branch(s2, code == c, outcome(c), lambda s3: chain(c + 1, s3), note='eval%d@%s' % (c, n.lineno))
            chain(1, s)
        e.ev_seq([n.args[0], n.args[2]], st, got)
    b_eval.lazy = True
    E.externs['eval'] = b_eval
    E.externs['globals'] = lambda e, n, pos, kws, st, k: k(st, NONE_V)


externs.EXTRA.append(install)


@specfn('eval_val')
def eval_val(ctx, eqn, env):
    H, Vv = env_arrays(ctx.st, env)
    return SV(FLOAT, EvalR(eqn.t, H, Vv))


@specfn('eval_code')
def eval_code(ctx, eqn, env):
    H, Vv = env_arrays(ctx.st, env)
    return SV(INT, EvalE(eqn.t, H, Vv))
