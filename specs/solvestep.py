"""
solvestep.py - the contract of EquationSolver._SolveStep (no tracing) shared by C02 / C10 / C11.

Vocabulary
    ENDO[j] = self.Parser.Endogenous[j] = (name, equation text)   LAG[j] = (lag name, source name)
    EXO[j]  = (name, anything)                                    DEC[j] = (name, equation text)
    TS      = self.TimeSeries (name -> list of numbers)
Preconditions (established by SetInitialConditions / the previous SolveStep, C10): `solver_ready(self, step)`.
"""
import z3
from pyvc.types import *
from pyvc.spec import fn, RaisesSpec, LoopSpec, specfn
from pyvc import ops
from . import common, lib, solver_model  # noqa

ENDO, LAG, EXO, DEC = ('self.Parser.Endogenous', 'self.Parser.Lagged', 'self.Parser.Exogenous', 'self.Parser.Decoration')


def allj(lst, body, var='j'):
    return 'all(%s for %s in range(0, len(%s)))' % (body, var, lst)


READY_PARTS = [
    ('step_positive', 'step >= 1'),
    ('exogenous_reach_the_period', allj(EXO, 'has(self.TimeSeries, %s[j][0]) and len(self.TimeSeries[%s[j][0]]) > step' % (EXO, EXO))),
    ('lagged_have_step_points', allj(LAG, 'has(self.TimeSeries, %s[j][0]) and len(self.TimeSeries[%s[j][0]]) == step' % (LAG, LAG))),
    ('lag_sources_have_the_previous_point', allj(LAG, 'has(self.TimeSeries, %s[j][1]) and len(self.TimeSeries[%s[j][1]]) >= step' % (LAG, LAG))),
    ('simultaneous_have_step_points', allj(ENDO, 'has(self.TimeSeries, %s[j][0]) and len(self.TimeSeries[%s[j][0]]) == step' % (ENDO, ENDO))),
    ('decorative_have_step_points', allj(DEC, 'has(self.TimeSeries, %s[j][0]) and len(self.TimeSeries[%s[j][0]]) == step' % (DEC, DEC))),
]
READY = ' and '.join(e for _, e in READY_PARTS)

# names of the four blocks are pairwise distinct; different names have different series objects; series are allocated
DISTINCT = ' and '.join([
    'all(implies(a != b, %s[a][0] != %s[b][0]) for a in range(0, len(%s)) for b in range(0, len(%s)))' % (ENDO, ENDO, ENDO, ENDO),
    'all(implies(a != b, %s[a][0] != %s[b][0]) for a in range(0, len(%s)) for b in range(0, len(%s)))' % (LAG, LAG, LAG, LAG),
    'all(implies(a != b, %s[a][0] != %s[b][0]) for a in range(0, len(%s)) for b in range(0, len(%s)))' % (DEC, DEC, DEC, DEC),
    'all(%s[a][0] != %s[b][0] for a in range(0, len(%s)) for b in range(0, len(%s)))' % (ENDO, LAG, ENDO, LAG),
    'all(%s[a][0] != %s[b][0] for a in range(0, len(%s)) for b in range(0, len(%s)))' % (ENDO, DEC, ENDO, DEC),
    'all(%s[a][0] != %s[b][0] for a in range(0, len(%s)) for b in range(0, len(%s)))' % (LAG, DEC, LAG, DEC),
    'all(%s[a][0] != %s[b][0] for a in range(0, len(%s)) for b in range(0, len(%s)))' % (EXO, ENDO, EXO, ENDO),
    'all(%s[a][0] != %s[b][0] for a in range(0, len(%s)) for b in range(0, len(%s)))' % (EXO, LAG, EXO, LAG),
    'all(%s[a][0] != %s[b][0] for a in range(0, len(%s)) for b in range(0, len(%s)))' % (EXO, DEC, EXO, DEC),
    'all(implies(has(self.TimeSeries, s) and has(self.TimeSeries, u) and s != u, self.TimeSeries[s] is not self.TimeSeries[u]) for s in strings() for u in strings())',
    'all(implies(has(self.TimeSeries, s), allocated(self.TimeSeries[s])) for s in strings())',
])

FR = "heap_unchanged_except('tyof')"          # nothing allocated at entry has been written
DMOD = ['dh.S.X', 'dv.S.X', 'dk', 'len.S', 'el.S', 'tyof']     # dict writes: dict arrays + (ghost) key lists of strings


def lag_keys(d, upto=None):
    rng = 'range(0, %s)' % upto if upto else 'range(0, len(%s))' % LAG
    return ('all(has(%s, %s[j][0]) and same(%s[%s[j][0]], old(self.TimeSeries[%s[j][1]][step - 1])) for j in %s)'
            % (d, LAG, d, LAG, LAG, rng))


def endo_keys(d, upto=None):
    rng = 'range(0, %s)' % upto if upto else 'range(0, len(%s))' % ENDO
    return 'all(has(%s, %s[j][0]) for j in %s)' % (d, ENDO, rng)


HINTS = {('empty_dict', 'initial'): Dict(STR, FLOAT), ('empty_dict', 'new_value'): Dict(STR, FLOAT),
         ('empty_list', 'vars_to_compute'): Tup(STR, STR), ('empty_list', 'failed'): Tup(STR, STR),
         ('empty_list', 'decoration_values'): Tup(STR, FLOAT),
         ('empty_list', 'vtc_ix'): INT, ('empty_list', 'dv_ix'): INT, ('empty_list', 'failed_ix'): INT,
         ('empty_list', 'state_'): INT, ('empty_list', 'slot_'): INT}

# ghost bookkeeping of the decorative block: vtc_ix / failed_ix / dv_ix = indices into Parser.Decoration of the pending / failed-this-round /
# done entries; state_[j] = -1 when Decoration[j] is done, else the round in which it last failed (0: never tried); slot_[j] = where it sits
GHOST = [('last_error = False', 'prev_ = initial'), ('new_value = dict()', 'prev_ = initial'),
         ('vars_to_compute = []', 'vtc_ix = []\ndv_ix = []\nstate_ = []\nslot_ = []\nround_ = 0'),
         ('vars_to_compute.append((var, eqn))', 'vtc_ix.append(len(vtc_ix))\nstate_.append(0)\nslot_.append(len(vtc_ix) - 1)'),
         ('failed = []', 'failed_ix = []\nround_ = round_ + 1'),
         ('failed.append((var, eqn))', 'failed_ix.append(vtc_ix[w])\nstate_[vtc_ix[w]] = round_\nslot_[vtc_ix[w]] = len(failed_ix) - 1'),
         ('decoration_values.append((var, val))', 'dv_ix.append(vtc_ix[w])\nstate_[vtc_ix[w]] = 0 - 1\nslot_[vtc_ix[w]] = len(dv_ix) - 1'),
         ('vars_to_compute = failed', 'vtc_ix = failed_ix')]

FAILED = lambda d: '(1 <= eval_code(%s[j][1], %s) and eval_code(%s[j][1], %s) <= 3)' % (ENDO, d, ENDO, d)
FIN_ENDO = lambda d: 'all(isfinite(%s[%s[j][0]]) for j in range(0, len(%s)))' % (d, ENDO, ENDO)

VARLIST = ('len(varlist) == len(%s) + len(%s) and all(varlist[j] == %s[j][0] for j in range(0, len(%s))) and '
           'all(varlist[len(%s) + j] == %s[j][0] for j in range(0, len(%s))) and '
           'all(varlist[q] == %s[q - len(%s)][0] for q in range(len(%s), len(varlist)))' % (ENDO, LAG, ENDO, ENDO, ENDO, LAG, LAG, LAG, ENDO, ENDO))


# what the simultaneous / lagged block appended stays in place while the decorative block runs
KEPT = (allj(ENDO, 'len(self.TimeSeries[%s[j][0]]) == step + 1 and isfinite(self.TimeSeries[%s[j][0]][step])' % (ENDO, ENDO)) + ' and ' +
        allj(LAG, 'len(self.TimeSeries[%s[j][0]]) == step + 1 and same(self.TimeSeries[%s[j][0]][step], old(self.TimeSeries[%s[j][1]][step - 1]))' % (LAG, LAG, LAG)) + ' and ' +
        allj(EXO, 'unchanged(self.TimeSeries[%s[j][0]])' % EXO))

PLISTS = ' and '.join('unchanged(%s)' % l for l in (ENDO, LAG, EXO, DEC))     # the parser's lists themselves (ground equalities)

TMOD = ['len.TS_SE', 'el.TS_SE', 'len.TS_XE', 'el.TS_XE', 'len.I', 'el.I', 'tyof']      # scratch lists of the decorative block
SCRATCH0 = ('fresh(vars_to_compute) and fresh(vtc_ix) and fresh(dv_ix) and fresh(decoration_values) and fresh(initial) and fresh(state_) and fresh(slot_) and '
            'vtc_ix is not dv_ix and vars_to_compute is not decoration_values and state_ is not slot_ and state_ is not vtc_ix and state_ is not dv_ix and '
            'slot_ is not vtc_ix and slot_ is not dv_ix')
WHERE_DONE = 'implies(state_[j] == -1, 0 <= slot_[j] and slot_[j] < len(dv_ix) and dv_ix[slot_[j]] == j)'
COVER_L = ('len(state_) == len(%s) and len(slot_) == len(%s) and round_ >= 0 and all(%s and implies(state_[j] != -1, 0 <= state_[j] and state_[j] <= round_ and '
           '0 <= slot_[j] and slot_[j] < len(vtc_ix) and vtc_ix[slot_[j]] == j) for j in range(0, len(%s)))' % (DEC, DEC, WHERE_DONE, DEC))
COVER_M = ('len(state_) == len(%s) and len(slot_) == len(%s) and round_ >= 1 and all(%s and (state_[j] == -1 or (0 <= state_[j] and state_[j] <= round_)) and '
           'implies(state_[j] == round_, 0 <= slot_[j] and slot_[j] < len(failed_ix) and failed_ix[slot_[j]] == j) and '
           'implies(0 <= state_[j] and state_[j] < round_, w <= slot_[j] and slot_[j] < len(vtc_ix) and vtc_ix[slot_[j]] == j) for j in range(0, len(%s)))' % (DEC, DEC, WHERE_DONE, DEC))
# (the trivially true conjunct on Decoration[j] makes a read of Decoration[j] a trigger of the quantifier)
COVER_END = ('len(state_) == len(%s) and len(slot_) == len(%s) and all(state_[j] == -1 and 0 <= slot_[j] and slot_[j] < len(dv_ix) and dv_ix[slot_[j]] == j and '
             '%s[j][0] == %s[j][0] for j in range(0, len(%s)))' % (DEC, DEC, DEC, DEC, DEC))


def PENDING(lst, ix):
    return ('len(%s) == len(%s) and all(0 <= %s[i] and %s[i] < len(%s) and %s[i] == %s[%s[i]] for i in range(0, len(%s))) and '
            'all(implies(a < b, %s[a] < %s[b]) for a in range(0, len(%s)) for b in range(0, len(%s)))'
            % (lst, ix, ix, ix, DEC, lst, DEC, ix, ix, ix, ix, ix, ix))


DONE = ('len(decoration_values) == len(dv_ix) and all(0 <= dv_ix[i] and dv_ix[i] < len(%s) and decoration_values[i][0] == %s[dv_ix[i]][0] and '
        'isfinite(decoration_values[i][1]) for i in range(0, len(dv_ix))) and '
        'all(implies(a != b, dv_ix[a] != dv_ix[b]) for a in range(0, len(dv_ix)) for b in range(0, len(dv_ix)))' % (DEC, DEC))


def COVER(ix):
    return ('all(any(%s[i] == j for i in range(0, len(%s))) or any(dv_ix[i] == j for i in range(0, len(dv_ix))) for j in range(0, len(%s))) and '
            'all(%s[a] != dv_ix[b] for a in range(0, len(%s)) for b in range(0, len(dv_ix)))' % (ix, ix, DEC, ix, ix))


LOOPS = {
    0: LoopSpec(index='a', modifies=DMOD, invariants=[('frame', FR), ('env_fresh', 'fresh(initial)')]),
    1: LoopSpec(index='b', modifies=DMOD, invariants=[('frame', FR), ('env_fresh', 'fresh(initial)')]),
    2: LoopSpec(index='c', modifies=DMOD, invariants=[('frame', FR), ('env_fresh', 'fresh(initial)'),
                                                    ('bounds', '0 <= c and c <= len(%s)' % LAG),
                                                    ('lagged_pinned', lag_keys('initial', 'c'))]),
    3: LoopSpec(index='d', modifies=DMOD, invariants=[('frame', FR), ('env_fresh', 'fresh(initial)'),
                                                    ('bounds', '0 <= d and d <= len(%s)' % ENDO),
                                                    ('lagged_pinned', lag_keys('initial')),
                                                    ('endogenous_names_bound', endo_keys('initial', 'd'))]),
    # ---- the fixed-point iteration -----------------------------------------------------------------------------
    4: LoopSpec(index=None, modifies=DMOD, invariants=[
        ('frame', FR), ('env_fresh', 'fresh(initial)'),
        ('endogenous_names_bound', endo_keys('initial')),
        ('lagged_pinned', lag_keys('initial')),
        ('sweeps_within_cap', '0 <= num_tries and num_tries <= self.MaxIterations'),
        ('tolerance_finite', 'isfinite(err_toler)'),
        ('no_sweep_yet', 'implies(num_tries == 0, relative_error == 1.0)'),
        ('error_is_nan_or_nonnegative', 'isnan(relative_error) or relative_error >= 0.0'),
        ('finite_error_means_finite_iterate', 'implies(num_tries >= 1 and isfinite(relative_error), %s)' % FIN_ENDO('initial')),
        # C11: after a sweep the flag says whether some equation failed to evaluate on the iterate the sweep started from (ghost prev_)
        ('error_flag_reflects_the_last_sweep', 'implies(num_tries >= 1, had_evaluation_errors == any(%s for j in range(0, len(%s))))' % (FAILED('prev_'), ENDO)),
    ], decreases='self.MaxIterations + 1 - num_tries'),
    6: LoopSpec(index='g', modifies=DMOD, ghost={'HG': 'heap_now()'}, invariants=[
        ('frame', FR), ('env_fresh', 'fresh(initial) and fresh(new_value) and new_value is not initial'),
        ('bounds', '0 <= g and g <= len(_it)'),
        ('iterate_kept', 'dict_same_as(HG, initial) and fresh_lists_unchanged_since(HG)'),
        ('copied_so_far', 'all(has(new_value, _it[j][0]) and same(new_value[_it[j][0]], _it[j][1]) for j in range(0, g))'),
    ]),
    7: LoopSpec(index='h', modifies=DMOD, ghost={'HH': 'heap_now()'}, invariants=[
        ('frame', FR), ('env_fresh', 'fresh(initial) and fresh(new_value) and new_value is not initial'),
        ('bounds', '0 <= h and h <= len(%s)' % ENDO),
        ('iterate_kept', 'dict_same_as(HH, initial) and fresh_lists_unchanged_since(HH)'),
        ('endogenous_names_bound', endo_keys('initial') + ' and ' + endo_keys('new_value')),
        ('lagged_pinned', lag_keys('new_value')),
        ('error_is_nan_or_nonnegative', 'isnan(relative_error) or relative_error >= 0.0'),
        ('finite_error_means_finite_values',
         'implies(isfinite(relative_error), all(isfinite(new_value[%s[j][0]]) and isfinite(initial[%s[j][0]]) for j in range(0, h)))' % (ENDO, ENDO)),
        # C11: the flag that turns into ValueError after the sweep records EVERY failed evaluation of the sweep, not only the last one
        ('error_flag_records_every_failed_evaluation',
         'had_evaluation_errors == any(1 <= eval_code(%s[j][1], initial) and eval_code(%s[j][1], initial) <= 3 for j in range(0, h))' % (ENDO, ENDO)),
    ]),
    8: LoopSpec(index='m', modifies=DMOD, ghost={'HI': 'heap_now()'}, invariants=[
        ('frame', FR), ('env_fresh', 'fresh(initial) and fresh(new_value) and new_value is not initial'),
        ('bounds', '0 <= m and m <= len(%s)' % ENDO),
        ('iterate_kept', 'dict_same_as(HI, initial) and fresh_lists_unchanged_since(HI)'),
        ('endogenous_names_bound', endo_keys('initial') + ' and ' + endo_keys('new_value')),
        ('lagged_pinned', lag_keys('new_value')),
        ('finite_error_means_finite_values', 'implies(isfinite(relative_error), %s and %s)' % (FIN_ENDO('new_value'), FIN_ENDO('initial'))),
    ]),
    # ---- decorative variables: evaluated into decoration_values, nothing appended yet --------------------------
    # ghost index lists (sidecar ghost code): vtc_ix[i] / dv_ix[i] = index in Parser.Decoration of the i-th pending / done entry
    9: LoopSpec(index='dk_', modifies=TMOD, invariants=[
        ('frame', FR), ('parser_lists_kept', PLISTS), ('scratch', SCRATCH0),
        ('bounds', '0 <= dk_ and dk_ <= len(%s)' % DEC),
        ('pending_is_a_prefix_copy', 'len(vars_to_compute) == dk_ and len(vtc_ix) == dk_ and len(dv_ix) == 0 and len(decoration_values) == 0 and '
                                     'all(vtc_ix[i] == i and vars_to_compute[i] == %s[i] for i in range(0, dk_))' % DEC),
        ('bookkeeping', 'round_ == 0 and len(state_) == dk_ and len(slot_) == dk_ and all(state_[j] == 0 and slot_[j] == j for j in range(0, dk_))'),
    ]),
    10: LoopSpec(index=None, modifies=DMOD + TMOD, invariants=[
        ('frame', FR), ('parser_lists_kept', PLISTS), ('scratch', SCRATCH0),
        ('iterate_kept', endo_keys('initial') + ' and ' + lag_keys('initial') + ' and ' + FIN_ENDO('initial')),
        ('pending_entries', PENDING('vars_to_compute', 'vtc_ix')),
        ('done_entries', DONE),
        ('pending_and_done_disjoint', 'all(vtc_ix[a] != dv_ix[b] for a in range(0, len(vtc_ix)) for b in range(0, len(dv_ix)))'),
        ('every_decorative_is_pending_or_done', COVER_L),
    ], decreases='len(vars_to_compute)'),
    11: LoopSpec(index='w', modifies=DMOD + TMOD, ghost={'HM': 'heap_now()'}, invariants=[
        ('frame', FR), ('parser_lists_kept', PLISTS), ('scratch', SCRATCH0 + ' and fresh(failed) and fresh(failed_ix) and failed is not vars_to_compute and failed_ix is not vtc_ix and '
                                              'failed is not decoration_values and failed_ix is not dv_ix'),
        ('bounds', '0 <= w and w <= len(vars_to_compute)'),
        ('pending_list_kept', 'list_same_as(HM, vars_to_compute) and list_same_as(HM, vtc_ix)'),
        ('iterate_kept', endo_keys('initial') + ' and ' + lag_keys('initial') + ' and ' + FIN_ENDO('initial')),
        ('pending_entries', PENDING('vars_to_compute', 'vtc_ix')),
        ('failed_entries', PENDING('failed', 'failed_ix') + ' and all(failed_ix[i] < vtc_ix[q] for i in range(0, len(failed_ix)) for q in range(w, len(vtc_ix))) and len(failed) <= w'),
        ('done_entries', DONE),
        ('done_and_failed_disjoint', 'all(dv_ix[a] != failed_ix[b] for a in range(0, len(dv_ix)) for b in range(0, len(failed_ix)))'),
        ('done_and_unprocessed_disjoint', 'all(dv_ix[a] != vtc_ix[q] for a in range(0, len(dv_ix)) for q in range(w, len(vtc_ix)))'),
        ('every_decorative_is_unprocessed_failed_or_done', COVER_M),
    ]),
    12: LoopSpec(index='z', modifies=[], invariants=[]),
    # ---- appending the period ---------------------------------------------------------------------------------
    13: LoopSpec(index='v', modifies=['len.X', 'el.X', 'tyof'], ghost={'HJ': 'heap_now()'}, invariants=[     # only number lists are written
        ('bounds', '0 <= v and v <= len(varlist)'),
        ('fields_and_dicts_untouched', "heap_unchanged_except('tyof', 'len.X', 'el.X')"),
        ('only_series_extended', 'old_lists_only_extended() and lists_unchanged_except_series_of(self)'),
        ('varlist_is_endogenous_then_lagged', VARLIST),
        ('appended_so_far', 'all(len(self.TimeSeries[varlist[q]]) == step + 1 and same(self.TimeSeries[varlist[q]][step], initial[varlist[q]]) for q in range(0, v))'),
        ('not_yet_appended', 'all(len(self.TimeSeries[varlist[q]]) == step for q in range(v, len(varlist)))'),
        ('decorative_untouched', 'all(len(self.TimeSeries[%s[j][0]]) == step for j in range(0, len(%s)))' % (DEC, DEC)),
        ('exogenous_untouched', allj(EXO, 'unchanged(self.TimeSeries[%s[j][0]])' % EXO)),
    ]),
    14: LoopSpec(index='u', modifies=['len.X', 'el.X', 'tyof'], invariants=[
        ('bounds', '0 <= u and u <= len(decoration_values)'),
        ('fields_and_dicts_untouched', "heap_unchanged_except('tyof', 'len.X', 'el.X')"),
        ('only_series_extended', 'old_lists_only_extended() and lists_unchanged_except_series_of(self)'),
        ('period_kept', KEPT),
        ('done_entries', DONE),
        ('decorative_appended_so_far', 'all(len(self.TimeSeries[%s[dv_ix[q]][0]]) == step + 1 and same(self.TimeSeries[%s[dv_ix[q]][0]][step], decoration_values[q][1]) for q in range(0, u))' % (DEC, DEC)),
        ('decorative_not_yet_appended', 'all(len(self.TimeSeries[%s[dv_ix[q]][0]]) == step for q in range(u, len(dv_ix)))' % DEC),
        ('every_decorative_is_done', COVER_END),
    ]),
}


# cut before the append phase: what is needed from here on
GHOST.append(('while len(vars_to_compute) > 0:', "_cut('before_append', %r, %r, %r, %r, %r, %r)" % (
    FR + ' and ' + PLISTS, 'fresh(initial) and fresh(decoration_values) and fresh(dv_ix)',
    endo_keys('initial') + ' and ' + lag_keys('initial'), FIN_ENDO('initial'), DONE,
    'fresh(state_) and fresh(slot_) and state_ is not slot_ and ' + COVER_END)))

# C11: the period is only reported when every equation evaluated without an arithmetic error on the last sweep
GHOST.append(('if had_evaluation_errors:', "_assert(%r, 'no_failed_evaluation_on_the_last_sweep')" %
              ('all(not %s for j in range(0, len(%s)))' % (FAILED('prev_'), ENDO))))

# cut after the fixed-point iteration: only the iterate and the frame matter for the rest
GHOST.append(("Logger('Number of iterations: {0}'.format(num_tries), priority=3)", "_cut('after_iteration', %r, %r, %r, %r)" % (
    FR + ' and ' + PLISTS, 'fresh(initial)', endo_keys('initial') + ' and ' + lag_keys('initial'), FIN_ENDO('initial'))))


INTACT = ('periods_already_solved_intact', 'lists_unchanged() and dicts_unchanged()')


def solvestep_contract(name=None):
    """the (non-tracing) contract of _SolveStep; verified in C02, C10 and C11 (each property reads its own clauses)"""
    return fn(
        'sfc_models.equation_solver.EquationSolver._SolveStep', name=name,
        args=dict(self=Ref('EquationSolver'), step=INT, is_trace_step=BOOL),
        float_mode='xreal',
        hints=HINTS,
        requires=[('not_tracing', 'not is_trace_step'), ('cap_nonneg', 'self.MaxIterations >= 0'),
                  ] + [('ready_' + n_, e_) for n_, e_ in READY_PARTS] + [('names_and_series_distinct', DISTINCT),
                  ('tolerance_parameter_finite', 'is_none(self.ParameterErrorTolerance) or isfinite(get(self.ParameterErrorTolerance))')],
        ghost_after=[('err_toler = float(self.Parser.Err_Tolerance)', "_assume('isfinite(err_toler)')")] + GHOST,
        loops=LOOPS,
        ensures=[
            # C10
            ('simultaneous_and_lagged_series_get_one_point', KEPT),
            ('lagged_equals_source_of_previous_period', allj(LAG, 'same(self.TimeSeries[%s[j][0]][step], old(self.TimeSeries[%s[j][1]][step - 1]))' % (LAG, LAG))),
            ('earlier_periods_untouched', 'old_lists_only_extended() and lists_unchanged_except_series_of(self) and dicts_unchanged()'),
            ('equations_untouched', "heap_unchanged_except('tyof', 'len.*', 'el.*', 'dh.*', 'dv.*', 'dk')"),
            # C02
            ('reported_simultaneous_values_are_finite', allj(ENDO, 'isfinite(self.TimeSeries[%s[j][0]][step])' % ENDO)),
            ('every_computed_decorative_value_is_finite_and_appended_once',
             'all(len(self.TimeSeries[%s[dv_ix[q]][0]]) == step + 1 and isfinite(self.TimeSeries[%s[dv_ix[q]][0]][step]) for q in range(0, len(dv_ix)))' % (DEC, DEC),
             {'needs': ['dv_ix']}),
            ('every_decorative_series_gets_one_finite_point',
             allj(DEC, 'len(self.TimeSeries[%s[j][0]]) == step + 1 and isfinite(self.TimeSeries[%s[j][0]][step])' % (DEC, DEC))),
        ],
        # C11: only value errors (ConvergenceError is one) report arithmetic / convergence failure; NameError / other errors of the
        # user's expressions pass through; nothing is appended on any failure
        raises=[RaisesSpec('ValueError', when='True', ensures=[INTACT]),
                RaisesSpec('NameError', when='True', ensures=[INTACT]),
                RaisesSpec('OtherError', when='True', ensures=[INTACT])],
        only_raises=True,
    )


READY_NEXT = READY.replace('== step', '== step + 1').replace('>= step', '>= step + 1').replace('> step', '> step').replace('step + 1 + 1', 'step + 1').replace('step + 1 >= 1', 'step >= 1')


def solvestep_wrapper_contract():
    """SolveStep(step) for a solver that is not tracing: what SolveEquation and CalculateInitialSteadyState rely on"""
    return fn(
        'sfc_models.equation_solver.EquationSolver.SolveStep', name='sfc_models.equation_solver.EquationSolver.SolveStep[not traced]',
        args=dict(self=Ref('EquationSolver'), step=INT),
        float_mode='xreal',
        requires=[('not_traced', 'is_none(self.TraceStep)'), ('cap_nonneg', 'self.MaxIterations >= 0'),
                  ] + [('ready_' + n_, e_) for n_, e_ in READY_PARTS] + [('names_and_series_distinct', DISTINCT),
                  ('tolerance_parameter_finite', 'is_none(self.ParameterErrorTolerance) or isfinite(get(self.ParameterErrorTolerance))')],
        modifies=['len.X', 'el.X', 'tyof'],
        ensures=[('other_lists_untouched', 'lists_unchanged_except_series_of(self) and old_lists_only_extended()'),
                 ('no_dict_or_field_change', "heap_unchanged_except('tyof', 'len.X', 'el.X')"),
                 ('one_point_per_simultaneous_and_lagged_series', KEPT),
                 ('one_finite_point_per_decorative_series', allj(DEC, 'len(self.TimeSeries[%s[j][0]]) == step + 1 and isfinite(self.TimeSeries[%s[j][0]][step])' % (DEC, DEC)))],
        raises=[RaisesSpec('ValueError', when='True', ensures=[INTACT]),
                RaisesSpec('NameError', when='True', ensures=[INTACT]),
                RaisesSpec('OtherError', when='True', ensures=[INTACT])],
        only_raises=True,
    )
