"""developer tool: python3-vt tools/dbg.py PID fn-substring [obligation-substring] [timeout_ms]"""
import sys, os, importlib
sys.path.insert(0, os.path.dirname(os.path.dirname(os.path.abspath(__file__))))
from pyvc.repo import Repo
from pyvc.state import ClassTable
from pyvc.spec import REG
from pyvc.verify import verify_function
from pyvc import smt
pid, fsub = sys.argv[1], sys.argv[2]
osub = sys.argv[3] if len(sys.argv) > 3 else ''
tmo = int(sys.argv[4]) if len(sys.argv) > 4 else 10000
importlib.import_module('specs.' + pid)
P = REG['props'][pid]
repo = Repo(); ctab = ClassTable(repo)
for c in REG['classes']: ctab.add(c)
for spec in P.fns:
    if fsub not in spec.name: continue
    r = verify_function(repo, ctab, spec)
    print('fn', spec.name, 'err', r.error, 'paths', r.paths, r.exc_outcomes, 'gen %.1fs' % r.gen_s)
    obs = [o for o in r.obligations if osub in o.name]
    smt.discharge(obs, tmo)
    for o in obs:
        print('%-11s %-8s %6d %s %s %s' % (o.verdict, o.backend, o.ms, o.name.split('/',1)[1], list(o.trace), (o.reason or '')[:80]))
        if o.verdict == 'refuted' and '-m' in sys.argv:
            print(o.model)
