"""Regenerate MANIFEST.json from the property modules (run under python3-vt from /verif)."""
import importlib, json, os, sys
sys.path.insert(0, os.path.dirname(os.path.dirname(os.path.abspath(__file__))))
from pyvc.spec import REG

NOT_BUILT = "contracts not yet built (DESIGN.md section 8: a property is claimed only once its obligations are generated from the real source and discharge)"
NA = {}   # property id -> reason, for properties that are deliberately not claimed
exec(open(os.path.join(os.path.dirname(__file__), 'not_applicable.py')).read())

props = [json.loads(l) for l in open('properties.jsonl')]
checks = []
na = []
served = []
for p in props:
    pid = p['id']
    if pid in NA:
        na.append({'property_id': pid, 'reason': NA[pid]})
        continue
    if not os.path.exists(os.path.join('specs', pid + '.py')):
        na.append({'property_id': pid, 'reason': NOT_BUILT})
        continue
    importlib.import_module('specs.' + pid)
    P = REG['props'][pid]
    served.append(pid)
    checks.append({
        'property_id': pid,
        'quick_cmd': './check %s --tier quick' % pid,
        'thorough_cmd': './check %s --tier thorough' % pid,
        'evidence_file': 'evidence/%s.json' % pid,
        'replay_cmd_template': './check %s --replay {path}' % pid,
        'engine': 'pyvc',
        'level_claimed': {'category': P.level, 'text': P.level_text, 'design_ref': P.design_ref},
        'level_note': P.level_note or ('Trusted base: ' + '; '.join(P.trusted) + ('. Only bounded / not decided: ' + '; '.join(P.not_decided) if P.not_decided else '')),
        'technique': P.technique,
    })
m = {
    'version': 1,
    'setup_cmd': "python3-vt -c 'import z3, cvc5' && /usr/bin/cvc5 --version >/dev/null && /venv/bin/python -c 'import sfc_models'",
    'hooks': {'guard': 'SFC_MODELS_VERIF',
              'enable': 'no instrumentation: contracts are sidecars under /verif/specs keyed by qualified name; the guard is unused',
              'baseline_off_cmd': 'cd /repo && /venv/bin/python -m pytest -ra -q -p no:cacheprovider --timeout=900 --continue-on-collection-errors',
              'source_commits': [], 'add_only': True},
    'engines': [{'name': 'pyvc', 'path': 'pyvc/', 'serves_properties': served,
                 'kind_free_text': 'ast->SMT verification-condition generator (symbolic execution of the real functions of /repo, '
                                   're-read on every run) with sidecar contracts in specs/, discharged by z3 and cvc5; '
                                   'bounded contract checks on the real code (dyn/) as labelled stand-ins and replay vehicle'}],
    'checks': checks,
    'notes': 'See DESIGN.md. Defects repaired in /repo by fix: commits are listed in known_findings.json (status fixed).',
    'not_applicable': na,
}
json.dump(m, open('MANIFEST.json', 'w'), indent=1)
print('claimed:', served)
