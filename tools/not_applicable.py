# property id -> reason (properties that are deliberately not claimed)
NA = {}
