"""developer tool: test candidate intermediate facts at an `ensures` obligation
   python3-vt tools/probe.py PID fn-substr obligation-substr timeout_ms 'spec formula' ['spec formula' ...]"""
import sys, os, importlib, time
sys.path.insert(0, os.path.dirname(os.path.dirname(os.path.abspath(__file__))))
import z3
from pyvc.repo import Repo
from pyvc.state import ClassTable
from pyvc.spec import REG
from pyvc.verify import verify_function
pid, fsub, osub, tmo = sys.argv[1], sys.argv[2], sys.argv[3], int(sys.argv[4])
importlib.import_module('specs.' + pid)
P = REG['props'][pid]
repo = Repo(); ctab = ClassTable(repo)
for c in REG['classes']: ctab.add(c)
spec = [s for s in P.fns if fsub in s.name][0]
r = verify_function(repo, ctab, spec)
o = [o for o in r.obligations if osub in o.name and hasattr(o, 'ctx')][0]
print('obligation', o.name, 'hyps', len(o.hyps))
for f in sys.argv[5:]:
    g = o.engine.speceval.formula(f, o.ctx)
    hyps = list(o.hyps) + list(o.ctx.side)
    for cfg in ('ematch', 'default'):
        s = z3.Solver()
        if cfg == 'ematch':
            s.set('auto_config', False); s.set('smt.mbqi', False)
        s.set('timeout', tmo)
        s.add(*hyps); s.add(z3.Not(g))
        t0 = time.time(); res = s.check()
        print('  %-8s %-8s %5.1fs  %s' % (cfg, res, time.time() - t0, f[:150]))
        if res == z3.unsat: break
