"""Run every committed seeded change against /repo itself:  git -C /repo apply <patch>;  ./check <id> --tier quick;  git -C /repo checkout -- .
   python3 tools/rerun_seeds.py [ID-n ...]      (updates seeded/<ID-n>/meta.json and writes seeded/README.md)"""
import json, os, subprocess, sys, time
VERIF = os.path.dirname(os.path.dirname(os.path.abspath(__file__)))


def sh(cmd, cwd=None, timeout=3600):
    p = subprocess.run(cmd, cwd=cwd, stdout=subprocess.PIPE, stderr=subprocess.STDOUT, universal_newlines=True, timeout=timeout)
    return p.returncode, p.stdout


def main():
    want = [a for a in sys.argv[1:] if not a.startswith('--')]
    root = os.path.join(VERIF, 'seeded')
    names = sorted(d for d in os.listdir(root) if os.path.isdir(os.path.join(root, d)))
    rc, st = sh(['git', '-C', '/repo', 'status', '--porcelain', '--untracked-files=no'])
    if st.strip():
        print('refusing to run: /repo has local changes'); return 2
    for nm in names:
        if want and nm not in want:
            continue
        d = os.path.join(root, nm)
        pid = nm.split('-')[0]
        meta = json.load(open(os.path.join(d, 'meta.json')))
        patch = os.path.join(d, 'patch.diff')
        rca, outa = sh(['git', '-C', '/repo', 'apply', patch])
        if rca != 0:
            meta['on_current_tree'] = {'applies': False, 'detail': outa[-300:]}
            json.dump(meta, open(os.path.join(d, 'meta.json'), 'w'), indent=1)
            print('%s: patch does not apply to the current tree' % nm); sys.stdout.flush()
            continue
        try:
            rcd, outd = sh(['/venv/bin/python', os.path.join(d, 'demo.py')], cwd='/repo')
            t0 = time.time()
            rcc, outc = sh([os.path.join(VERIF, 'check'), pid, '--tier', 'quick', '--no-evidence'], cwd=VERIF)
        finally:
            sh(['git', '-C', '/repo', 'checkout', '--', '.'])
        lines = [l for l in outc.split('\n') if l.startswith(('VIOLATION', 'UNDECIDED', 'KNOWN', 'CHECKER', pid))][:8]
        meta['on_current_tree'] = {'applies': True, 'how': 'git -C /repo apply; ./check %s --tier quick; git -C /repo checkout -- .' % pid,
                                   'demo_exit_with_patch': rcd, 'check_exit': rcc, 'wall_s': round(time.time() - t0, 1), 'lines': lines}
        meta['detected'] = (rcc == 1)
        json.dump(meta, open(os.path.join(d, 'meta.json'), 'w'), indent=1)
        print('%s: demo_exit=%d check_exit=%d %s' % (nm, rcd, rcc, '; '.join(lines[:2])[:220])); sys.stdout.flush()
    # README
    rows = []
    for nm in names:
        meta = json.load(open(os.path.join(root, nm, 'meta.json')))
        cur = meta.get('on_current_tree') or {}
        first = (meta.get('check_result') or {}).get('exit')
        viol = [l.split('replay=')[-1].split('/')[-1].rsplit('-', 1)[0] for l in cur.get('lines', []) if l.startswith('VIOLATION')]
        note = ''
        np_ = os.path.join(root, nm, 'notes.md')
        if os.path.exists(np_):
            txt = [l.strip() for l in open(np_).read().split('\n') if l.strip() and not l.startswith('#')]
            note = (txt[0] if txt else '')[:150]
        rows.append('| %s | %s | %s | %s | %s |' % (nm, note.replace('|', '/'), 'yes' if meta.get('confirmed_by_me') else 'no',
                                                  (('exit %s' % cur.get('check_exit')) + ('' if cur.get('demo_exit_with_patch') else ' (the demo PASSES with the patch on the current tree: neutralised by a later fix)'))
                                                  if cur.get('applies') else 'patch no longer applies', ', '.join(viol[:3])))
    with open(os.path.join(root, 'README.md'), 'w') as f:
        f.write('# Seeded property-breaking changes\n\nEach directory holds `patch.diff` (the change), `demo.py` (exits 0 / prints PASS on the unchanged tree, exits 1 / prints FAIL with the patch), '
                '`notes.md` (the sub-agent\'s description) and `meta.json` (what I ran to confirm it and what the check said).\n'
                'Column "check" is the exit code of `./check <id> --tier quick` with the patch applied to /repo itself (1 = VIOLATION reported).\n\n'
                '| seed | change (first line of the notes) | confirmed | check | obligations / bounded functions that reported it |\n|---|---|---|---|---|\n' + '\n'.join(rows) + '\n')
    return 0


if __name__ == '__main__':
    sys.exit(main())
