"""Confirm seeded changes (sub-agent patches) and run the property checks against them.
   python3 tools/run_seeds.py [--repo] ID ...     (default: checks run with PYVC_REPO=<scratch worktree>; --repo: apply to /repo and undo)
"""
import json, os, shutil, subprocess, sys, time
VERIF = os.path.dirname(os.path.dirname(os.path.abspath(__file__)))
PY = '/venv/bin/python'
TESTS = ['-m', 'pytest', '-q', '-p', 'no:cacheprovider', '--timeout=900', '-q',
         '--deselect', 'sfc_models/deprecated/test_iterative_machine_generator.py::TestIterativeMachineGenerator::test_main']


def sh(cmd, cwd=None, env=None, timeout=3600):
    p = subprocess.run(cmd, cwd=cwd, env=env, stdout=subprocess.PIPE, stderr=subprocess.STDOUT, universal_newlines=True, timeout=timeout)
    return p.returncode, p.stdout


def main():
    args = sys.argv[1:]
    use_repo = '--repo' in args
    ids = [a for a in args if not a.startswith('--')]
    for pid in ids:
        wt = '/tmp/seed_%s' % pid
        for i in (1, 2):
            patch = os.path.join(wt, 'SEED', 'patch%d.diff' % i)
            demo = os.path.join(wt, 'SEED', 'demo%d.py' % i)
            if not os.path.exists(patch):
                continue
            rec = {'property': pid, 'seed': '%s-%d' % (pid, i)}
            sh(['git', 'checkout', '--', '.'], cwd=wt)
            env = dict(os.environ, PYTHONPATH=wt)
            rc0, out0 = sh([PY, demo], cwd=wt, env=env)
            rec['demo_unchanged'] = {'exit': rc0, 'tail': out0[-300:]}
            rca, outa = sh(['git', 'apply', patch], cwd=wt)
            rec['apply'] = rca
            rct, outt = sh([PY] + TESTS, cwd=wt, env=env)
            rec['tests_with_patch'] = {'exit': rct, 'tail': outt[-300:]}
            rc1, out1 = sh([PY, demo], cwd=wt, env=env)
            rec['demo_patched'] = {'exit': rc1, 'tail': out1[-600:]}
            confirmed = (rc0 == 0 and rca == 0 and rct == 0 and rc1 != 0)
            rec['confirmed'] = confirmed
            # run the check
            t0 = time.time()
            if use_repo:
                sh(['git', '-C', '/repo', 'apply', patch])
                rcc, outc = sh([os.path.join(VERIF, 'check'), pid, '--tier', 'quick', '--no-evidence'], cwd=VERIF)
                sh(['git', '-C', '/repo', 'checkout', '--', '.'])
            else:
                rcc, outc = sh([os.path.join(VERIF, 'check'), pid, '--tier', 'quick', '--no-evidence'], cwd=VERIF, env=dict(os.environ, PYVC_REPO=wt))
            rec['check'] = {'cmd': './check %s --tier quick' % pid, 'exit': rcc, 'wall_s': round(time.time() - t0, 1),
                            'lines': [l for l in outc.split('\n') if l.startswith(('VIOLATION', 'UNDECIDED', 'KNOWN', 'CHECKER', pid))][:12]}
            sh(['git', 'checkout', '--', '.'], cwd=wt)
            d = os.path.join(VERIF, 'seeded', '%s-%d' % (pid, i))
            os.makedirs(d, exist_ok=True)
            shutil.copy(patch, os.path.join(d, 'patch.diff'))
            shutil.copy(demo, os.path.join(d, 'demo.py'))
            notes = os.path.join(wt, 'SEED', 'notes%d.md' % i)
            if os.path.exists(notes):
                shutil.copy(notes, os.path.join(d, 'notes.md'))
            meta = {'property': pid, 'breaks': 'see notes.md', 'confirmed_by_me': confirmed,
                    'what_i_ran': {'demo on the unchanged tree': rec['demo_unchanged'], 'existing suite with the patch': rec['tests_with_patch'],
                                   'demo with the patch': rec['demo_patched']},
                    'check_result': rec['check'], 'detected': rcc == 1}
            json.dump(meta, open(os.path.join(d, 'meta.json'), 'w'), indent=1)
            print('%s-%d confirmed=%s check_exit=%d %.0fs %s' % (pid, i, confirmed, rcc, time.time() - t0, '; '.join(rec['check']['lines'][:3])[:300]))
            sys.stdout.flush()


if __name__ == '__main__':
    main()
